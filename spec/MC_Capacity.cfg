SPECIFICATION CSpec
CONSTANTS
  P = 31723
  MaxN1 = 5
  MaxN2 = 5
  MaxCap = 9
INVARIANT ThresholdExact
INVARIANT Emit
CHECK_DEADLOCK FALSE
