----------------------------- MODULE BuilderInd -----------------------------
(***************************************************************************)
(* Counter abstraction of the constraint-system bookkeeping of both roles  *)
(* (R1CS!PCall / VCall restricted to gate count and pending gate), for an  *)
(* UNBOUNDED inductive argument with Apalache:                              *)
(*     Init => IndInv        and        IndInv /\ Next => IndInv'          *)
(* IndInv contains C16's mirror and pending-gate claims for call sequences *)
(* of any length.  MC_Builder checks (with TLC, bounded) that the concrete *)
(* builder states project onto states of this abstraction.                 *)
(***************************************************************************)
EXTENDS Integers

VARIABLES
  \* @type: Int;
  pn,       \* prover: number of gates (|a_L|)
  \* @type: Int;
  pp,       \* prover: pending gate index, -1 = none
  \* @type: Int;
  vn,       \* verifier: num_vars
  \* @type: Int;
  vp,       \* verifier: pending gate index, -1 = none
  \* @type: Int;
  phase,    \* 1 = first phase, 2 = randomized phase
  \* @type: Int;
  n1        \* gates at the phase switch (meaningful in phase 2)

Init == pn = 0 /\ pp = -1 /\ vn = 0 /\ vp = -1 /\ phase = 1 /\ n1 = 0

\* allocate(Some(_)) on both roles
Alloc ==
  /\ IF pp = -1 THEN pn' = pn + 1 /\ pp' = pn ELSE pn' = pn /\ pp' = -1
  /\ IF vp = -1 THEN vn' = vn + 1 /\ vp' = vn ELSE vn' = vn /\ vp' = -1
  /\ UNCHANGED << phase, n1 >>
\* allocate_multiplier / multiply on both roles: a fresh gate, the pending one untouched
Gate == pn' = pn + 1 /\ vn' = vn + 1 /\ UNCHANGED << pp, vp, phase, n1 >>
\* constrain, commit, defer, challenge: no bookkeeping effect
Other == UNCHANGED << pn, pp, vn, vp, phase, n1 >>
\* create_randomized_constraints on both roles
Switch == phase = 1 /\ phase' = 2 /\ n1' = pn /\ pp' = -1 /\ vp' = -1 /\ UNCHANGED << pn, vn >>

Next == Alloc \/ Gate \/ Other \/ Switch

\* C16: same gate count, same pending gate; a pending gate is the newest gate's predecessor-or-self and, in the second phase,
\* was created in the second phase (never paired across the switch)
IndInv ==
  /\ pn = vn /\ pp = vp
  /\ pn >= 0 /\ n1 >= 0 /\ phase \in {1, 2}
  /\ pp >= -1 /\ pp < pn
  /\ phase = 2 => (n1 <= pn /\ (pp = -1 \/ pp >= n1))
\* an arbitrary state satisfying the invariant (the inductive step starts here)
IndInit == pn \in Int /\ pp \in Int /\ vn \in Int /\ vp \in Int /\ phase \in {1, 2} /\ n1 \in Int /\ IndInv
=============================================================================
