------------------------------ MODULE MC_Library ----------------------------
(***************************************************************************)
(* Model checking of the composed machine (Library): for every scenario    *)
(*                                                                         *)
(*   prover table history x verifier table history x byte-level adversary  *)
(*                                                                         *)
(* the roles' generator tables are built step by step (new, increase,      *)
(* copy), the prover is driven through System's actions with the capacity  *)
(* and the generators of ITS table, the proof is encoded, the adversary    *)
(* edits the token stream, the decoder runs, and - if it returned a proof -*)
(* the verifier is driven with the capacity and generators of ITS table    *)
(* under random-oracle challenges (MC_Protocol's oracle).                  *)
(*                                                                         *)
(* Checked at the end of every run: the capacity law on both sides (C17),  *)
(* the round trip and the size law (C11), hostile streams end in a format  *)
(* error or a rejected proof (C08, C04), completeness through the whole    *)
(* library (C01), the chain only grows and every table is a window of it   *)
(* (C12), GensBound at the moment prove / verify run.                      *)
(***************************************************************************)
EXTENDS Library, MC_Protocol

CONSTANTS MaxCap           \* capacities 0 .. MaxCap are explored

VARIABLES lsc              \* [ph |-> prover table history, vh |-> verifier table history, tam |-> byte tamper]

mlvars == << pvars, gens, chain, enc, lsc >>

\* the one generator function of this process (the specification never inspects how it is computed)
GT(kind, j, i) == (IF kind = "G" THEN 1000 ELSE 5000) + 37 * (i + 1) + 211 * j + (IF kind = "H" THEN 54 * (i + 1) ELSE 0)
ContentOf(t) == [G |-> [j \in 1 .. t.parties |-> [i \in 1 .. t.cap |-> GT("G", j - 1, i - 1)]],
                 H |-> [j \in 1 .. t.parties |-> [i \in 1 .. t.cap |-> GT("H", j - 1, i - 1)]]]

\* table histories: new(c0, p) ; [increase(c1)] ; [copy]
Histories ==
  { << [g |-> "new", cap |-> c0, parties |-> p] >> \o extra \o cp :
      c0 \in 0 .. MaxCap, p \in 1 .. 2,
      extra \in {<< >>} \cup { << [g |-> "inc", cap |-> c1] >> : c1 \in 1 .. MaxCap },
      cp \in {<< >>, << [g |-> "copy"] >>} }
FinalCap(h) == LET c0 == h[1].cap IN IF Len(h) >= 2 /\ h[2].g = "inc" /\ h[2].cap > c0 THEN h[2].cap ELSE c0
Enough == << [g |-> "new", cap |-> MaxCap, parties |-> 1] >>

Base == 3                       \* two commitments, application data, one multiplication, one constraint: padded size 1 ... see Bases
Base2 == 5                      \* a two-phase circuit: 3 gates, padded size 4, two inner-product rounds
Pad(b) == Pad2(Gates(b))

Tampers(b) ==
  LET k == Lg(Pad(b))  n == 18 + 2 * k IN
  {[t |-> "none", i |-> 0]} \cup {[t |-> "cut", i |-> i] : i \in 1 .. n} \cup {[t |-> "bad", i |-> i] : i \in {1, 5, 11, 12, 14, n - 1, n}}
    \cup {[t |-> "trail", i |-> 0], [t |-> "addround", i |-> 0]} \cup (IF k >= 1 THEN {[t |-> "dropround", i |-> 0]} ELSE {})

\* the adversary's stream
TamperedStream(toks, tm) ==
  LET kL == toks[15].val IN
  CASE tm.t = "cut" -> SubSeq(toks, 1, tm.i - 1) \o << [st |-> "cut"] >>
    [] tm.t = "bad" -> [j \in 1 .. Len(toks) |-> IF j = tm.i THEN [st |-> "bad", k |-> toks[j].k] ELSE toks[j]]
    [] tm.t = "trail" -> toks \o << ScTok(1), PtTok(2) >>
    [] tm.t = "dropround" ->        \* one round fewer in both lists, counts adjusted: a well-formed encoding of another proof object
         SubSeq(toks, 1, 14) \o << LenTok(kL - 1) >> \o SubSeq(toks, 16, 14 + kL) \o << LenTok(kL - 1) >>
           \o SubSeq(toks, 17 + kL, 15 + 2 * kL) \o SubSeq(toks, 17 + 2 * kL, 18 + 2 * kL)
    [] tm.t = "addround" ->
         SubSeq(toks, 1, 14) \o << LenTok(kL + 1) >> \o SubSeq(toks, 16, 15 + kL) \o << PtTok(77) >> \o << LenTok(kL + 1) >>
           \o SubSeq(toks, 17 + kL, 16 + 2 * kL) \o << PtTok(78) >> \o SubSeq(toks, 17 + 2 * kL, 18 + 2 * kL)
    [] OTHER -> toks

(***************************************************************************)
(* Script: table steps of the prover, System's prover steps, encode /      *)
(* tamper / decode, table steps of the verifier, System's verifier steps.  *)
(***************************************************************************)
GSteps(role, h) == [i \in 1 .. Len(h) |-> [a |-> "gens", role |-> role, o |-> h[i]]]
IsP(s) == (s.a \in {"new", "call"} /\ s.role = "P") \/ s.a \in {"prove", "prove1", "prove2"}
LScript ==
  LET ps == Steps(sc.base, "none", "none")
      pp == SelectSeq(ps, IsP)
      vv == SelectSeq(ps, LAMBDA s : ~IsP(s))
  IN GSteps("P", lsc.ph) \o pp \o << [a |-> "encode"], [a |-> "tamperbytes"], [a |-> "decode"] >> \o GSteps("V", lsc.vh) \o vv
\* a failed prove or a failed decode ends the run
LDone == \/ pcnt > Len(LScript)
         \/ res.P \notin {"", "ok"}                              \* prove returned an error
         \/ pcnt <= Len(LScript) /\ LScript[pcnt].a = "encode" /\ res.P # "ok"
         \/ pcnt <= Len(LScript) /\ LScript[pcnt].a = "gens" /\ LScript[pcnt].role = "V" /\ wire = NoProof /\ enc # << >>

EnvOf(h) == [Env0 EXCEPT !.G = [i \in 1 .. FinalCap(h) |-> GT("G", 0, i - 1)], !.H = [i \in 1 .. FinalCap(h) |-> GT("H", 0, i - 1)]]

LInit ==
  /\ lsc \in ( {[ph |-> h, vh |-> Enough, tam |-> [t |-> "none", i |-> 0], base |-> b] : h \in Histories, b \in {Base, Base2}}
          \cup {[ph |-> Enough, vh |-> h, tam |-> [t |-> "none", i |-> 0], base |-> b] : h \in Histories, b \in {Base, Base2}}
          \cup UNION {{[ph |-> Enough, vh |-> Enough, tam |-> tm, base |-> b] : tm \in Tampers(b)} : b \in {Base, Base2}} )
  /\ sc = [base |-> lsc.base, dev |-> "none", tam |-> "none"]
  /\ env = [P |-> EnvOf(lsc.ph), V |-> EnvOf(lsc.vh)]
  /\ cs = [P |-> PInit, V |-> VInit]
  /\ tr = [P |-> << >>, V |-> << >>]
  /\ ph = [P |-> "none", V |-> "none"]
  /\ mid = [P |-> << >>, V |-> << >>]
  /\ wire = NoProof /\ sent = NoProof
  /\ res = [P |-> "", V |-> ""]
  /\ cberr = [P |-> "", V |-> ""]
  /\ degen = FALSE
  /\ out = NoOut
  /\ pcnt = 1
  /\ rnd = [d |-> [k \in 1 .. 40 |-> RandomElement(NZ)], chP |-> [k \in 1 .. 16 |-> RandomElement(NZ)],
            chV |-> [k \in 1 .. 16 |-> RandomElement(NZ)], alt |-> [k \in 1 .. 16 |-> RandomElement(NZ)], cbV |-> << >>]
  /\ consts = << >>
  /\ nch = [P |-> 0, V |-> 0]
  /\ altres = ""
  /\ LibInit

SameLib == UNCHANGED << gens, chain, enc >>
SameMC == UNCHANGED << rnd, consts, nch, altres >>

StepGens(s) ==
  LET o == s.o IN
  /\ \/ o.g = "new" /\ GensNew(s.role, o.parties, o.cap, ContentOf([parties |-> o.parties, cap |-> o.cap]))
     \/ o.g = "inc" /\ LET t == IF o.cap > gens[s.role].cap THEN [gens[s.role] EXCEPT !.cap = o.cap] ELSE gens[s.role]
                       IN GensIncrease(s.role, o.cap, ContentOf(t))
     \/ o.g = "copy" /\ GensCopy(s.role, ContentOf(gens[s.role]))
  /\ SameMC

LNext ==
  /\ ~LDone
  /\ pcnt' = pcnt + 1
  /\ LET s == LScript[pcnt] IN
       CASE s.a = "gens" -> StepGens(s)
         [] s.a = "new" -> StepNew(s) /\ SameLib
         [] s.a = "call" -> StepCall(s) /\ SameLib
         [] s.a = "prove1" -> /\ GensBound("P", gens.P.cap) /\ SameLib
                              /\ IF ProveP1(env.P, gens.P.cap, cs.P, rnd.d).res = "" THEN StepProve1C(gens.P.cap)
                                 ELSE StepProveC(gens.P.cap)        \* prove fails before any callback runs
         [] s.a = "prove2" -> StepProve2C(gens.P.cap) /\ SameLib
         [] s.a = "prove" -> GensBound("P", gens.P.cap) /\ StepProveC(gens.P.cap) /\ SameLib
         [] s.a = "encode" -> Encode /\ SameMC
         [] s.a = "tamperbytes" -> TamperBytes(TamperedStream(enc, lsc.tam)) /\ SameMC
         [] s.a = "decode" -> DecodeBytes /\ SameMC
         [] s.a = "verify1" -> GensBound("V", gens.V.cap) /\ StepVerify1 /\ SameLib
         [] s.a = "verify2" -> StepVerify2C(gens.V.cap) /\ SameLib
         [] s.a = "verify" -> GensBound("V", gens.V.cap) /\ StepVerifyC(gens.V.cap) /\ SameLib
  /\ UNCHANGED << sc, lsc >>

LSpec == LInit /\ [][LNext]_mlvars

(***************************************************************************)
(* Properties                                                              *)
(***************************************************************************)
PadN == Pad(sc.base)
KN == Lg(PadN)
ProverRan == res.P # ""
VerifierRan == res.V # ""
\* C17 through the tables: the capacity error exactly below the padded size, on either side
CapLawP == ProverRan => ((res.P = "InvalidGeneratorsLength") <=> (gens.P.cap < PadN))
CapLawV == (VerifierRan /\ wire = sent /\ ~degen /\ MandatoryNonIdentity(sent))
             => /\ (res.V = "InvalidGeneratorsLength") <=> (gens.V.cap < PadN)
                /\ gens.V.cap >= PadN => res.V = "ok"                 \* C01 through tables, bytes and decoder
\* C11: what the encoder wrote is the layout, its length is the size law, and it decodes to the proof that was sent
EncodeLaw == (enc # << >> /\ lsc.tam.t = "none") =>
               /\ enc = Tokens(sent)
               /\ Len(enc) = 18 + 2 * KN
               /\ RoundTrip
\* C08 / C11: a cut or invalid token ends in a format error and the verifier is never handed anything
HostileStream == (LDone /\ lsc.tam.t \in {"cut", "bad"} /\ res.P = "ok") => (wire = NoProof /\ ~VerifierRan /\ out.err = "FormatError")
\* trailing input is ignored: the identical object
TrailingIgnored == (LDone /\ lsc.tam.t = "trail" /\ res.P = "ok" /\ pcnt > Len(LScript)) => wire = sent
\* C04 / C08: a well-formed encoding of a proof with another number of rounds decodes and is rejected by the shape guard
OtherShapeRejected == (LDone /\ lsc.tam.t \in {"dropround", "addround"} /\ VerifierRan) => (wire # sent /\ res.V = "VerificationError")
\* every run comes to its end (no step of the script is disabled - in particular GensBound holds when prove / verify start)
RunsToEnd == (~LDone) => ENABLED LNext
\* C12: every table is a window of the chain and the chain agrees with the one generator function
ChainIsGT == \A k \in DOMAIN chain : chain[k] = GT(k[1], k[2], k[3])
TablesKnown == \A r \in {"P", "V"} : gens[r] # NoTable => KeysOf(gens[r]) \subseteq DOMAIN chain

LibInv == CapLawP /\ CapLawV /\ EncodeLaw /\ HostileStream /\ TrailingIgnored /\ OtherShapeRejected /\ ChainIsGT /\ TablesKnown /\ PendingClosed

\* non-vacuity probes (each must be VIOLATED)
NV_CapErrorP == ~(res.P = "InvalidGeneratorsLength")
NV_CapErrorV == ~(res.V = "InvalidGeneratorsLength")
NV_AcceptedAfterIncrease == ~(res.V = "ok" /\ Len(lsc.vh) >= 2 /\ lsc.vh[1].cap < PadN)
NV_ShapeRejected == ~(lsc.tam.t = "dropround" /\ res.V = "VerificationError")
=============================================================================
