-------------------------------- MODULE MC_LC -------------------------------
(***************************************************************************)
(* C15: every expression tree up to depth Depth over the public operators  *)
(* of linear_combination.rs.  LCDenotation is checked on the specification *)
(* (flattened terms evaluate to the meaning of the tree); every tree is    *)
(* printed as two behaviours - constrain(expr - value) must be provable,   *)
(* constrain(expr - value - 1) must not - and replayed on the real code,   *)
(* where the tree is built with the real operator impls.                   *)
(***************************************************************************)
EXTENDS LC, Json, TLC

CONSTANTS Depth, Full      \* Full: the large leaf/coefficient sets

VARIABLES tree, done
lvars == << tree, done >>

\* the assignment under which trees are evaluated: two commitments, one multiplier, one half-assigned gate
St == [aL |-> << 3, 6 >>, aR |-> << 4, 0 >>, aO |-> << 12, 0 >>, v |-> << 2, 5 >>, vb |-> << 3, 1 >>,
       cons |-> << >>, pending |-> 1, ndefer |-> 0]

Vars == IF Full THEN { <<"V", 0>>, <<"V", 1>>, <<"L", 0>>, <<"R", 0>>, <<"O", 0>>, <<"L", 1>> }
                ELSE { <<"V", 0>>, <<"O", 0>>, <<"L", 1>> }
Consts == IF Full THEN {0, 1, -1, 5} ELSE {0, -1, 5}
Scalars == IF Full THEN {0, 1, -1, 3} ELSE {0, -1, 3}

Leaves ==
  {[e |-> "var", k |-> x[1], i |-> x[2]] : x \in Vars}
  \cup {[e |-> "fromvar", k |-> "V", i |-> 1], [e |-> "one"], [e |-> "zero"]}
  \cup {[e |-> "const", c |-> c] : c \in Consts}
  \cup {[e |-> "collect", terms |-> << <<"V", 0, 2>>, <<"L", 0, -1>>, <<"V", 0, 3>>, <<"1", 0, 4>>, <<"O", 0, 0>> >>]}

RECURSIVE Trees(_)
Trees(d) ==
  IF d = 0 THEN Leaves
  ELSE LET T == Trees(d - 1) IN
       T \cup {[e |-> "neg", a |-> t] : t \in T}
         \cup {[e |-> "mul", a |-> t, c |-> c] : t \in T, c \in Scalars}
         \cup {[e |-> "add", a |-> t, b |-> u] : t \in T, u \in T}
         \cup {[e |-> "sub", a |-> t, b |-> u] : t \in T, u \in T}

LInit == tree \in Trees(Depth) /\ done = FALSE
LNext == ~done /\ done' = TRUE /\ UNCHANGED tree
LSpec == LInit /\ [][LNext]_lvars

Denotation == LCDenotation(St, tree)

Setup == << [op |-> "commit", v |-> 2, vb |-> 3], [op |-> "commit", v |-> 5, vb |-> 1],
            [op |-> "allocmul", l |-> 3, r |-> 4], [op |-> "alloc", a |-> 6] >>
Behaviour(delta) ==
  [p |-> [label |-> "verif",
          ops |-> Setup \o << IF delta = 0 THEN [op |-> "expr", e |-> tree, fix |-> 1]
                                           ELSE [op |-> "expr", e |-> tree, fix |-> 1, delta |-> delta] >>,
          cbs |-> << >>, cap |-> 2],
   value |-> Denote(St, tree),
   expect_p |-> "ok", expect_v |-> IF delta = 0 THEN "ok" ELSE "reject"]

Emit == done => /\ PrintT(<< "BEHAVIOUR", ToJson(Behaviour(0)) >>)
                /\ PrintT(<< "BEHAVIOUR", ToJson(Behaviour(1)) >>)
=============================================================================
