---------------------------- MODULE MC_BatchSys -----------------------------
(***************************************************************************)
(* batch_verify over the full verifier algebra (C07, verifier.rs:604-691). *)
(*                                                                         *)
(* MC_Batch states the batch law on abstract residuals.  Here the members  *)
(* of a batch are complete runs of System: each member is a scenario of    *)
(* MC_Protocol (base statement x alteration of the proof in transit /      *)
(* broken witness), driven through System's own actions - prover, wire,    *)
(* adversary, verifier under random-oracle challenges -, and joins the     *)
(* batch with what the specification's verifier computed for it: its       *)
(* individual result and, unless it failed early, its combined residual    *)
(* mega = Ires + r * Tres.  After the last member BatchVerdict is taken    *)
(* under two independent weight vectors.                                   *)
(*                                                                         *)
(* All members of one batch are made from the same sampled randomness, so  *)
(* two members over the same base statement carry the SAME proof: the      *)
(* pair (final scalar b + 1, final scalar b - 1) is the correlated forgery *)
(* of the property - a and b are never absorbed, so both members see the   *)
(* same challenges and their residuals are exactly opposite.               *)
(*                                                                         *)
(*   BatchSysIff      every member accepted on its own => the batch is     *)
(*                    accepted under any weights; some member rejected =>  *)
(*                    the batch is rejected (under one of two independent  *)
(*                    weight samples: luck 1/P does not repeat)            *)
(*   BatchSysFirst    an early failure (identity point, shape, capacity,   *)
(*                    failing closure) of a member is the batch's result,  *)
(*                    the first such member in batch order winning         *)
(*   PairOpposite     the +1 / -1 pair has opposite residuals, so it is    *)
(*                    accepted whenever its two weights are equal - under  *)
(*                    SharedWeight = TRUE (the wrong design) BatchSysIff   *)
(*                    must therefore FAIL (non-vacuity probe)              *)
(***************************************************************************)
EXTENDS MC_Protocol, FiniteSets

CONSTANTS MaxMembers, SharedWeight

VARIABLES batch,    \* the scenario: a sequence of members [base, tam]
          k,        \* index of the member being run
          pool,     \* what has joined the batch so far: [res, alg] per finished member, in batch order
          bres      \* << verdict under the first weight sample, verdict under the second >> once the batch was checked

bsvars == << pvars, batch, k, pool, bres >>

MemberBases == {3, 4, 5}            \* 1 gate + 2 commitments; 2 gates (one half open); two-phase, 3 gates
MemberTams == {"none", "b", "bminus", "tx", "AI1", "badwit", "ident", "surplus"}
Members == [base : MemberBases, tam : MemberTams]
Batches == UNION {[1 .. n -> Members] : n \in 1 .. MaxMembers}
\* keep the enumeration small: at most one member that is neither honest nor part of the pair
Odd(b) == {i \in DOMAIN b : b[i].tam \notin {"none", "b", "bminus"}}
Interesting(b) == Cardinality(Odd(b)) <= 1

ScOf(m) == [base |-> m.base, dev |-> "none", tam |-> m.tam]

Fresh(s) ==
  /\ sc' = s
  /\ Start([P |-> Env0, V |-> Env0])
  /\ pcnt' = 1 /\ consts' = << >> /\ nch' = [P |-> 0, V |-> 0] /\ altres' = ""
  /\ rnd' = [rnd EXCEPT !.cbV = << >>]

BSInit ==
  /\ batch \in {b \in Batches : Interesting(b)}
  /\ k = 1 /\ pool = << >> /\ bres = << >>
  /\ sc = ScOf(batch[1])
  /\ env = [P |-> Env0, V |-> Env0]
  /\ cs = [P |-> PInit, V |-> VInit]
  /\ tr = [P |-> << >>, V |-> << >>]
  /\ ph = [P |-> "none", V |-> "none"]
  /\ mid = [P |-> << >>, V |-> << >>]
  /\ wire = NoProof /\ sent = NoProof
  /\ res = [P |-> "", V |-> ""]
  /\ cberr = [P |-> "", V |-> ""]
  /\ degen = FALSE
  /\ out = NoOut
  /\ pcnt = 1
  /\ rnd = [d |-> [j \in 1 .. 40 |-> RandomElement(NZ)], chP |-> [j \in 1 .. 16 |-> RandomElement(NZ)],
            chV |-> [j \in 1 .. 16 |-> RandomElement(NZ)], alt |-> [j \in 1 .. 16 |-> RandomElement(NZ)], cbV |-> << >>,
            al1 |-> [j \in 1 .. MaxMembers |-> RandomElement(NZ)], al2 |-> [j \in 1 .. MaxMembers |-> RandomElement(NZ)]]
  /\ consts = << >>
  /\ nch = [P |-> 0, V |-> 0]
  /\ altres = ""

Weights(al) == IF SharedWeight THEN [j \in 1 .. Len(batch) |-> al[1]] ELSE SubSeq(al, 1, Len(batch))

\* a member's run is over: it joins the batch with the specification's individual result (alg = << >>: it failed early)
Join ==
  /\ Done /\ k <= Len(batch) /\ bres = << >>
  /\ pool' = Append(pool, [res |-> res.V, alg |-> out.ref, degen |-> degen, tam |-> batch[k].tam, base |-> batch[k].base])
  /\ k' = k + 1
  /\ IF k < Len(batch)
     THEN Fresh(ScOf(batch[k + 1])) /\ UNCHANGED << batch, bres >>
     ELSE UNCHANGED << pvars, batch, bres >>

\* batch_verify over what joined
BatchStep ==
  /\ k = Len(batch) + 1 /\ bres = << >>
  /\ bres' = << BatchVerdict(pool, Weights(rnd.al1)), BatchVerdict(pool, Weights(rnd.al2)) >>
  /\ UNCHANGED << pvars, batch, k, pool >>

BSNext ==
  \/ PNextMC /\ k <= Len(batch) /\ UNCHANGED << batch, k, pool, bres >>
  \/ Join
  \/ BatchStep

BSSpec == BSInit /\ [][BSNext]_bsvars

(***************************************************************************)
Checked == bres # << >>
NoDegen == \A i \in 1 .. Len(pool) : ~pool[i].degen
AllOk == \A i \in 1 .. Len(pool) : pool[i].res = "ok"
Early == {i \in 1 .. Len(pool) : pool[i].alg = << >>}

BatchSysIff ==
  (Checked /\ NoDegen) =>
     /\ AllOk => (bres[1] = "ok" /\ bres[2] = "ok")
     /\ ~AllOk => (bres[1] # "ok" \/ bres[2] # "ok")

BatchSysFirst ==
  (Checked /\ NoDegen /\ Early # {}) =>
     LET f == CHOOSE i \in Early : \A j \in Early : i <= j IN bres[1] = pool[f].res /\ bres[2] = pool[f].res

\* the correlated pair: same base, same proof, final scalar shifted by +1 and by -1
PairAt(i, j) == pool[i].tam = "b" /\ pool[j].tam = "bminus" /\ pool[i].base = pool[j].base
                 /\ pool[i].alg # << >> /\ pool[j].alg # << >>
PairOpposite ==
  (Checked /\ NoDegen) =>
     \A i, j \in 1 .. Len(pool) : PairAt(i, j) =>
        Fadd(pool[i].alg.mega, pool[j].alg.mega) = 0        \* (non-zero except when b's weight vanishes: probability 1/P)

BatchSysInv == BatchSysIff /\ BatchSysFirst /\ PairOpposite

\* non-vacuity probes (each must be VIOLATED)
NV_PairJoined == ~(Checked /\ \E i, j \in 1 .. Len(pool) : PairAt(i, j))
NV_EarlyJoined == ~(Checked /\ Early # {} /\ Len(pool) >= 2)
NV_AllOkBatch == ~(Checked /\ AllOk /\ Len(pool) >= 2 /\ bres[1] = "ok")
=============================================================================
