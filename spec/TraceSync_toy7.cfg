SPECIFICATION TraceSpec
CONSTANT P = 7
POSTCONDITION TraceAccepted
INVARIANT RoleSync
CHECK_DEADLOCK FALSE
