SPECIFICATION PedSpec
CONSTANTS
  P = 7
INVARIANT PedersenLinear
INVARIANT Emit
CHECK_DEADLOCK FALSE
