-------------------------------- MODULE MC_Gens -----------------------------
(***************************************************************************)
(* C12: generator tables as a state machine (generators.rs:106-243).       *)
(* Chain(kind, party, i) is the abstract i-th output of the party's hash   *)
(* chain; a table is history independent iff entry (j, i) is Chain(j, i)   *)
(* after every sequence of new / increase_capacity / (de)serialise / clone.*)
(* Views G(n, m) / H(n, m) list the first n generators of the first m      *)
(* parties in party-major order.  Each history is printed with the         *)
(* expected capacities and views and executed on the real tables.          *)
(***************************************************************************)
EXTENDS Integers, Sequences, Json, TLC

CONSTANTS MaxCap, MaxParties, MaxOps

VARIABLES parties, cap, tab, hist, done
gvars == << parties, cap, tab, hist, done >>

\* tab[j] = sequence of chain indices held for party j (the same for G and H: they differ in the label only)
Chain(j, i) == << j, i >>

GInit ==
  /\ parties \in 0 .. MaxParties
  /\ cap = -1 /\ tab = << >> /\ hist = << >> /\ done = FALSE

\* BulletproofGens::new: empty tables, then increase_capacity(c)
\* increase_capacity(c): no-op unless c > capacity; else each party's chain is fast-forwarded by the
\* current capacity and the next c - capacity outputs are appended
Extend(t, old, new) == [j \in 1 .. parties |-> t[j] \o [k \in 1 .. (new - old) |-> Chain(j - 1, old + k - 1)]]

New(c) ==
  /\ cap = -1
  /\ tab' = Extend([j \in 1 .. parties |-> << >>], 0, c)
  /\ cap' = c
  /\ hist' = Append(hist, [op |-> "new", cap |-> c, expect_cap |-> c])
  /\ UNCHANGED << parties, done >>

Increase(c) ==
  /\ cap >= 0 /\ ~done /\ Len(hist) < MaxOps
  /\ IF cap >= c THEN tab' = tab /\ cap' = cap
                 ELSE tab' = Extend(tab, cap, c) /\ cap' = c
  /\ hist' = Append(hist, [op |-> "inc", cap |-> c, expect_cap |-> cap'])
  /\ UNCHANGED << parties, done >>

Copy(kind) ==       \* serialise + deserialise, or clone: the table is carried over unchanged
  /\ cap >= 0 /\ ~done /\ Len(hist) < MaxOps
  /\ hist' = Append(hist, [op |-> kind, cap |-> cap, expect_cap |-> cap])
  /\ UNCHANGED << parties, cap, tab, done >>

Finish == cap >= 0 /\ ~done /\ done' = TRUE /\ UNCHANGED << parties, cap, tab, hist >>

GNext == (\E c \in 0 .. MaxCap : New(c) \/ Increase(c)) \/ Copy("roundtrip") \/ Copy("clone") \/ Finish
GSpec == GInit /\ [][GNext]_gvars

HistoryIndependent ==
  cap >= 0 => \A j \in 1 .. parties : /\ Len(tab[j]) = cap
                                       /\ \A i \in 1 .. cap : tab[j][i] = Chain(j - 1, i - 1)

\* AggregatedGensIter semantics required by the property: first n of the first m parties, party-major
RECURSIVE ViewSeq(_, _, _)
ViewSeq(n, m, j) == IF j > m THEN << >> ELSE [i \in 1 .. n |-> tab[j][i]] \o ViewSeq(n, m, j + 1)
View(n, m) == ViewSeq(n, m, 1)
ViewPartyMajor ==
  cap >= 0 => \A n \in 0 .. cap : \A m \in 0 .. parties :
     /\ Len(View(n, m)) = n * m
     /\ \A j \in 1 .. m : \A i \in 1 .. n : View(n, m)[(j - 1) * n + i] = Chain(j - 1, i - 1)

Views == { [n |-> n, m |-> m, expect |-> View(n, m)] : n \in 0 .. cap, m \in 0 .. parties }
RECURSIVE SetToSeq(_)
SetToSeq(S) == IF S = {} THEN << >> ELSE LET x == CHOOSE x \in S : TRUE IN << x >> \o SetToSeq(S \ {x})

Emit == done => PrintT(<< "BEHAVIOUR", ToJson([parties |-> parties, ops |-> hist, views |-> SetToSeq(Views)]) >>)
=============================================================================
