SPECIFICATION PSpecMC
CONSTANTS
  P = 31723
INVARIANT ProtocolInv
CHECK_DEADLOCK FALSE
