SPECIFICATION TraceSpec
CONSTANT P = 7
POSTCONDITION TraceAccepted
INVARIANT IdealIntegrity
CHECK_DEADLOCK FALSE
