SPECIFICATION TraceSpec
CONSTANT P = 79
POSTCONDITION TraceAccepted
INVARIANT IdealCompleteness
CHECK_DEADLOCK FALSE
