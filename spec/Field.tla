------------------------------- MODULE Field -------------------------------
(***************************************************************************)
(* Arithmetic in the prime field F_P and on vectors over it.               *)
(*                                                                         *)
(* The protocol code of ark-bulletproofs is generic over the curve; the    *)
(* conformance harness instantiates it on toy curves whose scalar field    *)
(* F_P is small enough (P^2 < 2^31) for TLC to redo every computation      *)
(* exactly.  Group elements are represented by their discrete logarithm    *)
(* with respect to the curve generator, which is an exact model of a       *)
(* cyclic group of prime order P: point addition is Fadd, scalar           *)
(* multiplication is Fmul, the identity is 0, a multiscalar product is IP. *)
(***************************************************************************)
EXTENDS Integers, Sequences

CONSTANT P          \* prime, P*P < 2^31

F == 0 .. (P - 1)

Norm(x) == ((x % P) + P) % P
Fadd(a, b) == (a + b) % P
Fsub(a, b) == (a - b + P) % P
Fneg(a) == (P - a) % P
Fmul(a, b) == (a * b) % P

RECURSIVE Fpow(_, _)
Fpow(a, e) ==
  IF e = 0 THEN 1
  ELSE LET h == Fpow(a, e \div 2)
           hh == (h * h) % P
       IN IF e % 2 = 1 THEN (hh * a) % P ELSE hh

\* Field.inverse(): defined for non-zero elements only (the code unwraps it)
Finv(a) == Fpow(a, P - 2)

RECURSIVE SumTo(_, _)
SumTo(s, n) == IF n = 0 THEN 0 ELSE (SumTo(s, n - 1) + s[n]) % P
SumSeq(s) == SumTo(s, Len(s))

RECURSIVE ProdTo(_, _)
ProdTo(s, n) == IF n = 0 THEN 1 ELSE (ProdTo(s, n - 1) * s[n]) % P
ProdSeq(s) == ProdTo(s, Len(s))

\* inner product; also <scalars, points> (a multiscalar multiplication)
IP(a, b) == SumSeq([i \in 1 .. Len(a) |-> (a[i] * b[i]) % P])

Had(a, b) == [i \in 1 .. Len(a) |-> (a[i] * b[i]) % P]
VAdd(a, b) == [i \in 1 .. Len(a) |-> (a[i] + b[i]) % P]
VScale(c, a) == [i \in 1 .. Len(a) |-> (c * a[i]) % P]
Zeros(n) == [i \in 1 .. n |-> 0]

\* util::exp_iter: 1, x, x^2, ...   (n terms)
RECURSIVE PowersAcc(_, _, _)
PowersAcc(x, n, acc) ==
  IF Len(acc) = n THEN acc
  ELSE PowersAcc(x, n, Append(acc, IF acc = << >> THEN 1 ELSE (acc[Len(acc)] * x) % P))
Powers(x, n) == PowersAcc(x, n, << >>)

Take(s, n) == SubSeq(s, 1, n)
Drop(s, n) == SubSeq(s, n + 1, Len(s))

\* usize::next_power_of_two: 0 -> 1, 1 -> 1, 3 -> 4, ...
RECURSIVE NextPow2From(_, _)
NextPow2From(n, p) == IF p >= n THEN p ELSE NextPow2From(n, 2 * p)
Pad2(n) == NextPow2From(n, 1)

IsPow2(n) == n >= 1 /\ Pad2(n) = n

RECURSIVE Lg(_)
Lg(n) == IF n <= 1 THEN 0 ELSE 1 + Lg(n \div 2)      \* floor(log2 n), Lg(1) = 0

Pow2(k) == 2 ^ k
=============================================================================
