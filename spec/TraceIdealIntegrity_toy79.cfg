SPECIFICATION TraceSpec
CONSTANT P = 79
POSTCONDITION TraceAccepted
INVARIANT IdealIntegrity
CHECK_DEADLOCK FALSE
