------------------------------ MODULE MC_Process -----------------------------
(***************************************************************************)
(* C12: "the i-th G and H generator of party j is a fixed function of      *)
(* (curve, j, i): it does not depend ... on the process".  One process may *)
(* instantiate the library for several curves.  A process life is the      *)
(* sequence of curves for which it derives generator tables and Pedersen   *)
(* bases (BulletproofGens::new, PedersenGens::default).  The specification *)
(* keeps, per curve, what was observed first (`seen`); CurveFunction says  *)
(* that what a process derives for a curve is Bases(curve) whatever it     *)
(* derived before - in particular nothing is carried over from one curve   *)
(* to the next.  Every life of at most MaxLen uses is printed and executed *)
(* in ONE process of the real code; each use is compared with the values   *)
(* pinned from the reference revision and with a fresh single-use process. *)
(***************************************************************************)
EXTENDS Integers, Sequences, Json, TLC

CONSTANTS Curves, MaxLen

VARIABLES life, seen, done
pvars == << life, seen, done >>

\* the bases and generators of a curve: a function of the curve alone (the model never inspects it)
Bases(c) == << "bases", c >>

PInit == life = << >> /\ seen = << >> /\ done = FALSE
Use(c) ==
  /\ ~done /\ Len(life) < MaxLen
  /\ life' = Append(life, c)
  /\ seen' = Append(seen, Bases(c))          \* what this use derives
  /\ UNCHANGED done
Finish == ~done /\ Len(life) >= 1 /\ done' = TRUE /\ UNCHANGED << life, seen >>
PNext == (\E c \in Curves : Use(c)) \/ Finish
PSpec == PInit /\ [][PNext]_pvars

CurveFunction == \A i, j \in 1 .. Len(life) : life[i] = life[j] => seen[i] = seen[j]
CurvesApart == \A i, j \in 1 .. Len(life) : life[i] # life[j] => seen[i] # seen[j]
PInv == CurveFunction /\ CurvesApart
Emit == done => PrintT(<< "BEHAVIOUR", ToJson([life |-> life]) >>)
=============================================================================
