SPECIFICATION TraceSpec
CONSTANT P = 31723
POSTCONDITION TraceAccepted
INVARIANT IdealCompleteness
CHECK_DEADLOCK FALSE
