--------------------------------- MODULE LC ---------------------------------
(***************************************************************************)
(* The operator impls of linear_combination.rs as functions on term lists, *)
(* next to the meaning of an expression (Denote), which is defined without *)
(* reference to term lists.  LCDenotation (C15): evaluating the flattened  *)
(* terms gives the meaning, for every expression tree.                     *)
(*                                                                         *)
(* Expression trees are records with a tag field e:                       *)
(*   var/fromvar [k, i]   one   const [c]   zero                           *)
(*   add [a, b]   sub [a, b]   neg [a]   mul [a, c]   collect [terms]      *)
(***************************************************************************)
EXTENDS R1CS

FromVar(k, i) == << <<k, i, 1>> >>                     \* From<Variable>
FromConst(c) == << <<"1", 0, c>> >>                    \* From<F>
NegLC(lc) == [j \in 1 .. Len(lc) |-> <<lc[j][1], lc[j][2], Fneg(lc[j][3])>>]      \* Neg: every coefficient
AddLC(a, b) == a \o b                                  \* Add: concatenation
SubLC(a, b) == a \o NegLC(b)                           \* Sub: concatenation with negated rhs
MulLC(lc, c) == [j \in 1 .. Len(lc) |-> <<lc[j][1], lc[j][2], Fmul(lc[j][3], c)>>]  \* Mul<S>
VarTimes(k, i, c) == << <<k, i, c>> >>                 \* Variable * scalar

RECURSIVE ExprTerms(_)
ExprTerms(x) ==
  CASE x.e \in {"var", "fromvar"} -> FromVar(x.k, x.i)
    [] x.e = "one" -> FromVar("1", 0)
    [] x.e = "const" -> FromConst(Norm(x.c))
    [] x.e = "zero" -> << >>
    [] x.e = "add" -> AddLC(ExprTerms(x.a), ExprTerms(x.b))
    [] x.e = "sub" -> SubLC(ExprTerms(x.a), ExprTerms(x.b))
    [] x.e = "neg" -> NegLC(ExprTerms(x.a))
    [] x.e = "mul" -> IF x.a.e = "var" THEN VarTimes(x.a.k, x.a.i, Norm(x.c)) ELSE MulLC(ExprTerms(x.a), Norm(x.c))
    [] x.e = "collect" -> [j \in 1 .. Len(x.terms) |-> <<x.terms[j][1], x.terms[j][2], Norm(x.terms[j][3])>>]

RECURSIVE Denote(_, _)
Denote(st, x) ==
  CASE x.e \in {"var", "fromvar"} -> TermVal(st, <<x.k, x.i>>)
    [] x.e = "one" -> 1
    [] x.e = "const" -> Norm(x.c)
    [] x.e = "zero" -> 0
    [] x.e = "add" -> Fadd(Denote(st, x.a), Denote(st, x.b))
    [] x.e = "sub" -> Fsub(Denote(st, x.a), Denote(st, x.b))
    [] x.e = "neg" -> Fneg(Denote(st, x.a))
    [] x.e = "mul" -> Fmul(Denote(st, x.a), Norm(x.c))
    [] x.e = "collect" -> SumSeq([j \in 1 .. Len(x.terms) |-> Fmul(Norm(x.terms[j][3]), TermVal(st, x.terms[j]))])

LCDenotation(st, x) == PEval(st, ExprTerms(x)) = Denote(st, x)
=============================================================================
