SPECIFICATION TraceSpec
CONSTANT P = 7
POSTCONDITION TraceAccepted
CHECK_DEADLOCK FALSE
