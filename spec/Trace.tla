-------------------------------- MODULE Trace -------------------------------
(***************************************************************************)
(* Trace validation: is a recorded execution of the real library (on a toy *)
(* curve, with every value logged as a small integer) a behaviour of       *)
(* System?  Every event binds the inputs the environment supplied (call    *)
(* arguments, RNG scalars, challenge scalars) to the parameters of the     *)
(* corresponding System action and then demands that everything the code   *)
(* produced - returned handles, error kinds, every transcript operation    *)
(* with label and payload, every field of the proof, the verdict - is      *)
(* exactly what the specification computes.                                *)
(*                                                                         *)
(* File format: NDJSON, one event per line; many runs per file, each       *)
(* starting with a "setup" event.                                          *)
(***************************************************************************)
EXTENDS Library, Json, IOUtils, FiniteSets

Rec == ndJsonDeserialize(IOEnv.TRACE)

VARIABLES l,        \* index of the next event
          obs,      \* what the code itself reported for this run: [pres, vres] ("" = not yet)
          pool      \* C07: the specification's individual results of the runs since the last batch_begin

tvars == << lvars, l, obs, pool >>
NoObs == [pres |-> "", vres |-> ""]

Has(r, f) == f \in DOMAIN r
Ev == Rec[l]
IsEvent(e) == l <= Len(Rec) /\ Rec[l].ev = e /\ l' = l + 1

PtLen == Rec[1].ptlen
ScLen == Rec[1].sclen

(***************************************************************************)
(* What is compared is selected per check through environment variables,   *)
(* so that a check raises an alarm only for what its property states:      *)
(*   CMP_H  returned handles, gate counts and error kinds of builder calls *)
(*   CMP_O  transcript operations (order, labels, payload identity)        *)
(*   CMP_P  the emitted proof equals the reference prover's, field by field*)
(*          (includes: the RNG draw count)                                 *)
(*   CMP_E  result / error kind of prove                                   *)
(*   CMP_V  verdict / error kind of verify                                 *)
(* Unset = compared ("1"); "0" switches a comparison off.                  *)
(***************************************************************************)
Flag(n) == ~(n \in DOMAIN IOEnv /\ IOEnv[n] = "0")
CmpH == Flag("CMP_H")
CmpO == Flag("CMP_O")
CmpP == Flag("CMP_P")
CmpE == Flag("CMP_E")
CmpV == Flag("CMP_V")
\*   CMP_R  (C09) only the construction of the prover's RNG: build_rng, one rekey per commitment blinding, finalize
CmpR == "CMP_R" \in DOMAIN IOEnv /\ IOEnv.CMP_R = "1"
\*   CMP_B  (C09) the part of CMP_P that does not depend on how constraints are weighted: the RNG draw count and the six witness-bearing
\*          / masking commitments and e_blinding equal the reference prover's (witness part + its own draw * B~)
CmpB == "CMP_B" \in DOMAIN IOEnv /\ IOEnv.CMP_B = "1"
\*   CMP_G  (C12, C17) generator tables: stored content, capacities, views; the table a role proves / verifies with
\*   CMP_C  (C11) the encoding: token stream and size of to_bytes, result of from_bytes
\*   CMP_K  (C17) prove / verify report InvalidGeneratorsLength exactly when the specification does (nothing else about the result)
CmpK == "CMP_K" \in DOMAIN IOEnv /\ IOEnv.CMP_K = "1"
\*   CMP_I  (C04) the verifier absorbs every proof element, with the payload the proof carries, before each challenge the protocol draws
\*          after it - including the combiner r on the fork: the sequence of (proof-element appends, challenges) equals the model's
CmpI == "CMP_I" \in DOMAIN IOEnv /\ IOEnv.CMP_I = "1"
CmpG == Flag("CMP_G")
CmpC == Flag("CMP_C")
BlindFields(pf) == << pf.AI1, pf.AO1, pf.S1, pf.AI2, pf.AO2, pf.S2, pf.eb >>

(* does a recorded transcript operation equal the operation the model performs? *)
OpMatch(r, e) ==
  /\ r.o = e.o
  /\ r.f = e.f
  /\ e.o \in {"A", "RK", "C"} => r.l = e.l
  /\ e.o = "C" => r.len = 32
  /\ e.o \in {"A", "RK"} =>
       CASE e.t = "pt"  -> Has(r, "pt") /\ r.pt = e.v /\ r.len = PtLen
         [] e.t = "sc"  -> Has(r, "sc") /\ r.sc = e.v /\ r.len = ScLen
         [] e.t = "u64" -> Has(r, "u64") /\ r.u64 = e.v /\ r.len = 8
         [] e.t = "str" -> Has(r, "str") /\ r.str = e.v
         [] e.t = "raw" -> Has(r, "raw") /\ r.raw = e.v

(* OPS_MODE = "embed" (C06): the model's operations must occur, in order, among the recorded ones; recorded
   operations in between may only be further appends on the main transcript (extra binding is not a violation,
   a missing, reordered or relabelled operation, or any extra challenge, is).  Default: equality (C18). *)
Embed == "OPS_MODE" \in DOMAIN IOEnv /\ IOEnv.OPS_MODE = "embed"

RECURSIVE Embeds(_, _, _, _)
Embeds(model, logged, i, j) ==
  IF i > Len(model)
  THEN \A k \in j .. Len(logged) : logged[k].o = "A"
  ELSE IF j > Len(logged) THEN FALSE
  ELSE IF OpMatch(logged[j], model[i]) THEN Embeds(model, logged, i + 1, j + 1)
  ELSE logged[j].o = "A" /\ Embeds(model, logged, i, j + 1)

RngOps(ops) == SelectSeq(ops, LAMBDA op : op.o \in {"RB", "RK", "RF"})
OpsMatch(logged, model) ==
  /\ CmpO => IF Embed THEN Embeds(model, logged, 1, 1)
             ELSE /\ Len(logged) = Len(model)
                  /\ \A k \in 1 .. Len(logged) : OpMatch(logged[k], model[k])
  \* the RNG is built from the transcript, keyed with every commitment blinding factor (in any order) and then finalized
  /\ CmpR => LET a == RngOps(logged)  b == RngOps(model) IN
             /\ Len(a) = Len(b)
             /\ \A k \in 1 .. Len(a) : (b[k].o # "RK") => OpMatch(a[k], b[k])                 \* RB first, RF last
             /\ \A k \in 1 .. Len(b) : (b[k].o = "RK") =>
                    Cardinality({j \in 1 .. Len(a) : a[j].o = "RK" /\ OpMatch(a[j], b[k])})
                      = Cardinality({j \in 1 .. Len(b) : b[j] = b[k]})

ProofLabels == {"A_I1", "A_O1", "S1", "A_I2", "A_O2", "S2", "T_1", "T_3", "T_4", "T_5", "T_6", "t_x", "t_x_blinding", "e_blinding", "L", "R"}
ProofOrChal(ops) == SelectSeq(ops, LAMBDA o : (o.o = "A" /\ o.l \in ProofLabels) \/ o.o = "C")
IntegrityOrder(logged, model) ==
  LET a == ProofOrChal(logged)  b == ProofOrChal(model)
  IN /\ Len(a) = Len(b)
     \* (whether a challenge is squeezed from the transcript itself or from a clone of it is C06's statement, not compared here)
     /\ \A k \in 1 .. Len(a) : a[k].o = b[k].o /\ a[k].l = b[k].l /\ (b[k].o = "A" => OpMatch(a[k], b[k]))

NewOps(role) == SubSeq(tr'[role], Len(tr[role]) + 1, Len(tr'[role]))

\* an application-level operation, as the model sees it
AppOp(r) == IF Has(r, "str") THEN OpA(r.l, "str", r.str) ELSE OpA(r.l, "raw", r.raw)

\* challenge scalars the code derived during this event, in order
\* (those of the main transcript first, then those drawn on forks - the verifier's combiner r: where in the sequence of operations a fork
\*  challenge is drawn is a matter of C04 / C06 / C18, which compare the operations themselves; the verdict is computed from the values)
ChVals(tx) == LET sel == SelectSeq(tx, LAMBDA r : r.o = "C" /\ r.f = 0) \o SelectSeq(tx, LAMBDA r : r.o = "C" /\ r.f # 0)
              IN [k \in 1 .. Len(sel) |-> IF Has(sel[k], "val") THEN sel[k].val ELSE 1]

\* the call record handed to System: expression trees are flattened by the specification's LC operators
CallOf(r) ==
  IF r.op = "commit" /\ r.role = "P" /\ ~CmpH /\ Has(r, "ret") /\ Len(r.ret) = 2
  THEN [op |-> "commit", v |-> r.v, vb |-> r.vb, Vobs |-> r.ret[1]]
  ELSE IF r.op = "expr"
  THEN [op |-> "con", lc |-> ExprTerms(r.e) \o (IF Has(r, "c") THEN FromConst(r.c) ELSE << >>)]
  ELSE r

TraceInit == Init /\ LibInit /\ l = 1 /\ obs = NoObs /\ pool = << >>

TraceSetup ==
  /\ IsEvent("setup")
  /\ Start([P |-> [B |-> Ev.P.B, Bb |-> Ev.P.Bb, G |-> Ev.P.G, H |-> Ev.P.H],
            V |-> [B |-> Ev.V.B, Bb |-> Ev.V.Bb, G |-> Ev.V.G, H |-> Ev.V.H]])

\* the application's appends: everything appended before the library's own separator (the last append of the event)
AppendsOf(tx) == SelectSeq(tx, LAMBDA r : r.o = "A")
TraceNew ==
  /\ IsEvent("new") /\ ~degen
  /\ Len(AppendsOf(Ev.tx)) >= 1
  /\ New(Ev.role, [k \in 1 .. Len(AppendsOf(Ev.tx)) - 1 |-> AppOp(AppendsOf(Ev.tx)[k])])
  /\ OpsMatch(Ev.tx, tr'[Ev.role])

\* C15: the constant the harness attached to constrain(expr + c) is minus the meaning of the expression (plus the
\* stated offset), the meaning being computed by the specification without reference to term lists
ExprConstOk ==
  (Ev.op = "expr" /\ Ev.role = "P" /\ Has(Ev, "c")) => Ev.c = Fadd(Fneg(Denote(cs.P, Ev.e)), Ev.d)

TraceCall ==
  /\ IsEvent("call") /\ ~degen
  /\ ExprConstOk
  /\ Call(Ev.role, CallOf(Ev))
  /\ CmpH => (out'.ret = Ev.ret /\ out'.err = Ev.err)
  /\ OpsMatch(Ev.tx, NewOps(Ev.role))

(* C09: which draw plays which role.  By default the draws are taken in the order the reference revision makes them.  When the
   harness found the roles out by intervention on the RNG stream (Ev.roles: for every draw, in stream order, the list of roles it was
   seen to play - see infer_roles in the harness), the specification demands that this map is a bijection between the draws that are
   used and the roles the protocol has (no draw serves two commitments, no role goes without a draw of its own) and hands the draws
   to the reference prover role by role: a revision that merely draws its nonces in another order is not reported. *)
HasRoles == Has(Ev, "roles")
RolesStable == HasRoles => Ev.roles_stable
RoleOrder1(n1) ==
  << <<"i", 1, 0>>, <<"o", 1, 0>>, <<"s", 1, 0>> >> \o [j \in 1 .. n1 |-> <<"sL", 1, j - 1>>] \o [j \in 1 .. n1 |-> <<"sR", 1, j - 1>>]
RoleOrder2(n1, n2) ==
  (IF n2 > 0 THEN << <<"i", 2, 0>>, <<"o", 2, 0>>, <<"s", 2, 0>> >> ELSE << >>)
    \o [j \in 1 .. n2 |-> <<"sL", 2, n1 + j - 1>>] \o [j \in 1 .. n2 |-> <<"sR", 2, n1 + j - 1>>]
    \o << <<"t", 1, 0>>, <<"t", 3, 0>>, <<"t", 4, 0>>, <<"t", 5, 0>>, <<"t", 6, 0>> >>
DrawsOf(role) == {k \in 1 .. Len(Ev.roles) : Ev.roles[k] = << role >>}
RolesOkFor(order) ==
  /\ Ev.rng_ok
  /\ Len(Ev.roles) = Len(Ev.allrng)
  /\ \A k \in 1 .. Len(Ev.roles) : Len(Ev.roles[k]) <= 1                  \* no draw serves two roles
  /\ \A j \in 1 .. Len(order) : Cardinality(DrawsOf(order[j])) = 1         \* every role has a draw of its own
ByRole(order) == [j \in 1 .. Len(order) |-> Ev.allrng[CHOOSE k \in 1 .. Len(Ev.roles) : Ev.roles[k] = << order[j] >>]]
\* n1: first-phase gates; n2: second-phase gates (known once the callbacks ran); which: 1 = first part of prove, 2 = second part, 0 = both
RoleOrderFor(which, n1, n2) ==
  CASE which = 1 -> RoleOrder1(n1) [] which = 2 -> RoleOrder2(n1, n2) [] OTHER -> RoleOrder1(n1) \o RoleOrder2(n1, n2)
Draws(which, n1, n2) ==
  IF HasRoles /\ Ev.roles_stable /\ RolesOkFor(RoleOrderFor(which, n1, n2)) THEN ByRole(RoleOrderFor(which, n1, n2)) ELSE Ev.rng
\* rng_ok = FALSE: the recorded RNG output did not parse as a whole number of scalar draws
RngOk(used, which, n1, n2) ==
  IF HasRoles THEN (Ev.roles_stable => RolesOkFor(RoleOrderFor(which, n1, n2)))
  ELSE Ev.rng_ok /\ Len(Ev.rng) = used

\* the value the code appended under `label` during this event (0 if absent)
Appended(label) ==
  LET sel == SelectSeq(Ev.tx, LAMBDA r : r.o = "A" /\ r.l = label /\ Has(r, "pt"))
  IN IF Len(sel) >= 1 THEN sel[1].pt ELSE 0

TraceProve1 ==
  /\ IsEvent("prove1") /\ ~degen
  /\ CmpG => GensBound("P", Ev.cap)
  /\ ProveStart(Ev.cap, Draws(1, PLen(cs.P), 0), [AI1 |-> Appended("A_I1"), AO1 |-> Appended("A_O1"), S1 |-> Appended("S1")])
  /\ ((CmpP \/ CmpB) /\ RolesStable) => (RngOk(out'.used, 1, PLen(cs.P), 0) /\ mid'.P.em = out'.ref)
  /\ OpsMatch(Ev.tx, NewOps("P"))

EmittedProof == IF Has(Ev, "proof") THEN Ev.proof ELSE NoProof

ProveOutcome(which, n1, n2) ==
  \/ degen'                                   \* zero challenge: the code panics or errs; nothing is demanded
  \/ /\ CmpE => res'.P = Ev.res
     /\ CmpK => ((Ev.res = "InvalidGeneratorsLength") <=> (res'.P = "InvalidGeneratorsLength"))
     /\ (CmpR /\ Ev.res = "ok") => Ev.ext_taken = 32      \* finalize keyed the RNG with 32 bytes of the caller's randomness
     /\ OpsMatch(Ev.tx, NewOps("P"))
     /\ (CmpP /\ res'.P = "ok" /\ RolesStable) => (RngOk(out'.used, which, n1, n2) /\ wire' = out'.ref)
     /\ (CmpB /\ res'.P = "ok" /\ RolesStable) => (RngOk(out'.used, which, n1, n2) /\ BlindFields(wire') = BlindFields(out'.ref))

TraceProve2 ==
  /\ IsEvent("prove2") /\ ~degen
  /\ CmpG => GensBound("P", Ev.cap)
  /\ \/ LET n1 == mid.P.ref.n1  n2 == PLen(cs.P) - mid.P.ref.n1
        IN ProveFinish(Ev.cap, Draws(2, n1, n2), ChVals(Ev.tx), EmittedProof) /\ ProveOutcome(2, n1, n2)
     \/ ProveAbort /\ (CmpE => res'.P = Ev.res) /\ (CmpO => Ev.tx = << >>)

TraceProve ==
  /\ IsEvent("prove") /\ ~degen
  /\ CmpG => GensBound("P", Ev.cap)
  /\ Prove(Ev.cap, Draws(0, PLen(cs.P), 0), ChVals(Ev.tx), EmittedProof)
  /\ ProveOutcome(0, PLen(cs.P), 0)

TraceWire ==
  /\ IsEvent("wire") /\ ~degen
  /\ Adversary(Ev.proof)

TraceVerify1 ==
  /\ IsEvent("verify1") /\ ~degen
  /\ CmpG => GensBound("V", Ev.cap)
  /\ VerifyStart
  /\ CmpI => IntegrityOrder(Ev.tx, NewOps("V"))
  /\ OpsMatch(Ev.tx, NewOps("V"))

(* C03: once the verifier reaches the algebraic check, its verdict must be that of the unbatched relations
   (b) Tres = 0 and (c) Ires = 0 (generators folded round by round) - except for the single value of the
   combiner r = -Ires/Tres at which the combined check cannot tell (probability 1/P), and the combined
   residual must be the weighted sum the specification says it is. *)
\* NO_LUCK = "1": the coincidence r = -Ires/Tres is not excused. Used for proofs crafted with knowledge of the combiner the verifier derived for
\* the unaltered proof (the harness' "rcraft" workload): there a vanishing weighted sum is construction, not luck; the driver tolerates the
\* one-in-P event by counting.
NoLuck == "NO_LUCK" \in DOMAIN IOEnv /\ IOEnv.NO_LUCK = "1"
RefExplains ==
  LET a == out'.ref IN
  (a # << >> /\ a.nz) =>
    /\ a.mega = Fadd(a.Ires, Fmul(a.r, a.Tres))
    /\ \/ (Ev.res = "ok") <=> (a.Ires = 0 /\ a.Tres = 0)
       \/ ~NoLuck /\ a.Tres # 0 /\ a.mega = 0

\* a proof with the identity in a mandatory position (on a toy group an honest T_k is the identity with probability 1/P): what the verifier does
\* with it is C03's statement (CMP_V); no other property says anything about such a run
IdentityOnWire == wire # NoProof /\ ~MandatoryNonIdentity(wire)
VerifyOutcome ==
  \/ degen'
  \/ ~CmpV /\ IdentityOnWire
  \* the verifier crashed: a crash accepts nothing; that it must not happen is C08's statement (policed on the 256-bit curves, where a zero
  \* challenge cannot be the cause) and C03's (a crash is not the specification's verdict)
  \/ ~CmpV /\ Has(Ev, "panicked") /\ Ev.panicked
  \/ /\ CmpV => (res'.V = Ev.res /\ RefExplains)
     \* ... and the code got as far as the specification: it derived every challenge the specification's verifier derives in this step
     \* (a verifier that gives up earlier returns no challenge values; the specification must not be evaluated on defaults in their place)
     /\ CmpV => Len(SelectSeq(NewOps("V"), LAMBDA o : o.o = "C")) <= Len(ChVals(Ev.tx))
     /\ CmpK => ((Ev.res = "InvalidGeneratorsLength") <=> (res'.V = "InvalidGeneratorsLength"))
     /\ CmpI => IntegrityOrder(Ev.tx, NewOps("V"))
     /\ OpsMatch(Ev.tx, NewOps("V"))

TraceVerify2 ==
  /\ IsEvent("verify2") /\ ~degen
  /\ CmpG => GensBound("V", Ev.cap)
  /\ \/ VerifyFinish(Ev.cap, ChVals(Ev.tx)) /\ VerifyOutcome
     \/ VerifyAbort /\ (CmpV => res'.V = Ev.res) /\ (CmpO => Ev.tx = << >>)

TraceVerify ==
  /\ IsEvent("verify") /\ ~degen
  /\ CmpG => GensBound("V", Ev.cap)
  /\ Verify(Ev.cap, ChVals(Ev.tx))
  /\ VerifyOutcome

\* end of a run: the transcripts handed back must drive identical follow-up challenges (C06)
TraceEnd ==
  /\ IsEvent("end") /\ ~degen
  \* (both roles of the code itself returned a transcript; judged where transcript operations are compared: C06, C18)
  /\ (CmpO /\ obs.pres = "ok" /\ obs.vres = "ok" /\ wire = sent /\ ~IdentityOnWire) => Ev.sync \in {"same", "skip"}     \* skip: not measured (batch members)
  /\ UNCHANGED vars

\* the prover's assignment as read through the hook: every gate is (left, right, output) of the specification's assignment (C16)
TraceGates ==
  /\ IsEvent("gates") /\ ~degen
  /\ CmpH => Ev.vals = [i \in 1 .. PLen(cs.P) |-> << cs.P.aL[i], cs.P.aR[i], cs.P.aO[i] >>]
  /\ UNCHANGED vars

\* decoding of a tampered encoding failed: the verifier never ran
TraceDecode == IsEvent("decode") /\ ~degen /\ UNCHANGED vars

(* Library: the life of a role's generator table.  The event carries the table as stored after the step (or the view returned). *)
Content == [G |-> Ev.G, H |-> Ev.H]
TraceGens ==
  /\ IsEvent("gens") /\ ~degen
  /\ IF ~CmpG
     THEN \* not compared: the table is taken as reported
          /\ gens' = [gens EXCEPT ![Ev.role] = [parties |-> Ev.parties, cap |-> Ev.cap]]
          /\ UNCHANGED << vars, chain, enc >>
     ELSE /\ \/ Ev.g = "new" /\ GensNew(Ev.role, Ev.argparties, Ev.argcap, Content)
             \/ Ev.g = "inc" /\ GensIncrease(Ev.role, Ev.argcap, Content)
             \/ Ev.g \in {"ser", "clone"} /\ GensCopy(Ev.role, Content)
             \* (walks_bad: the other ways of walking the same iterator - nth, skip, step_by, count, last, size_hint - that did not list what
             \*  plain iteration lists; the view is ONE sequence however it is walked)
             \/ Ev.g = "view" /\ Has(Ev, "ret") /\ GensView(Ev.role, Ev.kind, Ev.n, Ev.m, Ev.ret) /\ (Has(Ev, "walks_bad") => Ev.walks_bad = << >>)
          \* the public capacity fields say what the table holds
          /\ Ev.cap = gens'[Ev.role].cap /\ Ev.parties = gens'[Ev.role].parties
          /\ Ev.g # "view" => (Ev.rawcap = Ev.cap /\ Ev.rawparties = Ev.parties)

(* Library: the proof as bytes.  encode: what to_bytes produced; wirebytes: what the adversary made of it; decodeb: what from_bytes returned *)
KRounds == Lg(Pad2(PLen(cs.P)))
TraceEncode ==
  /\ IsEvent("encode") /\ ~degen
  /\ Encode
  /\ CmpC => /\ Ev.toks = enc'
             /\ Ev.trail = 0 /\ Ev.again                                                      \* nothing else in the encoding; deterministic
             /\ Ev.len = EncSize(Len(wire.L), Len(wire.R), Rec[1].cptlen, Rec[1].csclen)       \* size = layout
             /\ (~degen /\ wire = out.ref) => (Len(wire.L) = KRounds /\ Len(wire.R) = KRounds)  \* k = log2 of the padded gate count
TraceWireBytes ==
  /\ IsEvent("wirebytes") /\ ~degen
  /\ TamperBytes(Ev.toks)
TraceDecodeB ==
  /\ IsEvent("decodeb") /\ ~degen
  /\ IF CmpC
     THEN /\ DecodeBytes
          /\ Ev.res = (IF out'.err = "" THEN "ok" ELSE out'.err)
          /\ Ev.res = "ok" => (Ev.proof = wire' /\ Ev.reenc)          \* the object the stream spells; it re-encodes to the bytes read
     ELSE /\ wire' = IF Ev.res = "ok" THEN Ev.proof ELSE NoProof
          /\ out' = NoOut
          /\ UNCHANGED << env, cs, tr, ph, mid, sent, res, cberr, degen, gens, chain, enc >>

\* after a degenerate event nothing is demanded until the next run starts
TraceSkip ==
  /\ degen /\ l <= Len(Rec) /\ Rec[l].ev \notin {"setup", "end", "batch_begin", "batch"} /\ l' = l + 1
  /\ UNCHANGED vars

(* C07: a batch over the runs recorded since batch_begin.  The batch verdict must be the specification's
   BatchVerdict of the individual results under the weights the batch drew - one scalar per instance. *)
TraceBatchBegin == IsEvent("batch_begin") /\ pool' = << >> /\ UNCHANGED << vars, obs >>
TraceBatch ==
  /\ IsEvent("batch")
  /\ \/ \E i \in 1 .. Len(pool) : pool[i].degen          \* a member hit a zero challenge: nothing is demanded
     \/ /\ Len(pool) = Ev.n /\ Len(Ev.alphas) = Ev.n
        \* exactly one weight per instance is drawn - after every instance's scalars were computed, so none on an early error
        /\ IF \E i \in 1 .. Len(pool) : pool[i].alg = << >>
           THEN Ev.rng_bytes \in {0, Ev.rng_bytes_expected}      \* (whether weights are drawn before an early error is found is not stated)
           ELSE Ev.rng_bytes = Ev.rng_bytes_expected
        \* the batch accepts exactly when every member was accepted on its own (the members' own recorded verdicts), or - a small-group
        \* coincidence - exactly as the specification's weighted sum of the members' residuals says
        /\ \/ (Ev.res = "ok") <=> (\A i \in 1 .. Len(pool) : pool[i].ores = "ok")
           \/ Ev.res = BatchVerdict(pool, Ev.alphas)
        /\ (Ev.res = "ok" /\ \E i \in 1 .. Len(pool) : pool[i].ores # "ok") => Ev.res = BatchVerdict(pool, Ev.alphas)
  /\ pool' = << >> /\ UNCHANGED << vars, obs >>

LibSame == UNCHANGED << gens, chain, enc >>
TraceNext ==
  \* a new run: new tables, nothing encoded; what is known of the generator function stays (it is one function for the process)
  \/ TraceSetup /\ obs' = NoObs /\ UNCHANGED << pool, chain >> /\ gens' = [P |-> NoTable, V |-> NoTable] /\ enc' = << >>
  \/ (TraceNew \/ TraceCall \/ TraceProve1 \/ TraceVerify1 \/ TraceWire \/ TraceDecode \/ TraceGates \/ TraceSkip)
       /\ UNCHANGED << obs, pool >> /\ LibSame
  \/ (TraceGens \/ TraceEncode \/ TraceWireBytes \/ TraceDecodeB) /\ UNCHANGED << obs, pool >>
  \/ TraceEnd /\ UNCHANGED obs /\ LibSame
       /\ pool' = IF res.V = "" THEN pool ELSE Append(pool, [res |-> res.V, alg |-> out.ref, degen |-> IdentityOnWire, ores |-> obs.vres])
  \/ (degen /\ IsEvent("end") /\ UNCHANGED << vars, obs >> /\ LibSame /\ pool' = Append(pool, [res |-> "", alg |-> << >>, degen |-> TRUE, ores |-> obs.vres]))
  \/ (TraceProve2 \/ TraceProve) /\ obs' = [obs EXCEPT !.pres = Ev.res] /\ UNCHANGED pool /\ LibSame
  \/ (TraceVerify2 \/ TraceVerify) /\ obs' = [obs EXCEPT !.vres = Ev.res] /\ UNCHANGED pool /\ LibSame
  \/ (TraceBatchBegin \/ TraceBatch) /\ LibSame

TraceSpec == TraceInit /\ [][TraceNext]_tvars

(***************************************************************************)
(* Acceptance: every event was consumed.  On rejection the postcondition   *)
(* names the first event no action of the specification explains.          *)
(***************************************************************************)
TraceAccepted ==
  LET d == TLCGet("stats").diameter IN
  IF d - 1 = Len(Rec) THEN TRUE
  ELSE /\ PrintT(<< "TRACE-REJECTED", "first unmatched event", d, Rec[d] >>)
       /\ FALSE

(***************************************************************************)
(* Ideal-verdict properties over what the code itself reported (obs), with *)
(* the statement semantics (SameStatement, Satisfied) computed by the      *)
(* specification from the recorded calls.  They do not depend on how the   *)
(* code derives or orders challenges, only on its verdicts.                *)
(***************************************************************************)
Honest == wire = sent /\ ~degen /\ SameStatement /\ sent # NoProof
\* C01: same statement, satisfying assignment, unaltered proof (no identity commitment) => accepted
IdealCompleteness ==
  (obs.vres # "" /\ Honest /\ Satisfied(cs.P) /\ MandatoryNonIdentity(sent))
     => obs.vres \in {"ok", "InvalidGeneratorsLength"}
\* C02: an accepted unaltered proof for the same statement comes from a satisfying assignment
\* (on a toy curve up to Schwartz-Zippel luck: a flagged run is re-run with fresh randomness by the driver)
IdealSoundness ==
  (obs.vres = "ok" /\ Honest) => Satisfied(cs.P)

(* C05: an accepted, unaltered proof means the verifier's statement and context are the prover's: both roles performed the
   same transcript operations (label, application data, commitments, their count, domain separators, every proof element),
   the verifier's constraints are satisfied by the prover's assignment, and the bases agree (the value base only matters
   once a gate or a constant/commitment weight uses it). *)
VStatementHolds ==
  /\ PLen(cs.P) = VLen(cs.V)
  \* the verifier was handed exactly the prover's commitments, in the prover's order
  /\ cs.V.V = [j \in 1 .. Len(cs.P.v) |-> Commit(env.P, cs.P.v[j], cs.P.vb[j])]
  /\ \A q \in 1 .. Len(cs.V.cons) : PEval(cs.P, cs.V.cons[q]) = 0
BasesAgree == env.V.Bb = env.P.Bb /\ (PLen(cs.P) >= 1 => env.V.B = env.P.B)
StatementBinding ==
  (obs.vres = "ok" /\ wire = sent /\ sent # NoProof /\ ~degen)
     => (Shared(tr.P) = Shared(tr.V) /\ VStatementHolds /\ BasesAgree)

\* C04 (ideal form): an altered proof object is never accepted (on a toy curve up to luck: the driver re-runs a flagged case)
IdealIntegrity == (obs.vres = "ok" /\ ~degen /\ sent # NoProof) => wire = sent
\* C08 (ideal form): whatever is accepted has the shape the statement calls for and no identity among its mandatory points
IdealShape ==
  (obs.vres = "ok" /\ ~degen /\ wire # NoProof)
     => (ShapeOk(Pad2(VLen(cs.V)), Len(wire.L), Len(wire.R)) /\ MandatoryNonIdentity(wire))

\* properties of System evaluated in every state of every recorded run
TraceInv == PendingClosed /\ RoleSync /\ Completeness
=============================================================================
