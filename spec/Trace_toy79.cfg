SPECIFICATION TraceSpec
CONSTANT P = 79
POSTCONDITION TraceAccepted
INVARIANT PendingClosed
CHECK_DEADLOCK FALSE
