SPECIFICATION TraceSpec
CONSTANT P = 7
POSTCONDITION TraceAccepted
INVARIANT IdealCompleteness
CHECK_DEADLOCK FALSE
