SPECIFICATION TraceSpec
CONSTANT P = 31723
POSTCONDITION TraceAccepted
INVARIANT RoleSync
CHECK_DEADLOCK FALSE
