SPECIFICATION TraceSpec
CONSTANT P = 7
POSTCONDITION TraceAccepted
INVARIANT TraceInv
CHECK_DEADLOCK FALSE
