----------------------------- MODULE MC_Protocol ----------------------------
(***************************************************************************)
(* End-to-end model checking of System over the exact field model: for     *)
(* every scenario (base statement x verifier-side deviation x alteration   *)
(* of the proof in transit) the prover and the verifier are driven through *)
(* System's own actions - New, Call*, ProveStart/Call*/ProveFinish or      *)
(* Prove, Adversary, New, Call*, VerifyStart/Call*/VerifyFinish or Verify -*)
(* with sampled RNG output and challenges drawn from a random oracle:      *)
(* a role's k-th challenge equals the other role's k-th challenge exactly  *)
(* when the transcript operations that precede it (and its label) are      *)
(* equal, and is an independent sample otherwise.                          *)
(*                                                                         *)
(* Checked at the end of every run:                                        *)
(*   Completeness (C01), RoleSync and FSBinding (C06), WitnessSoundness    *)
(*   (C02), Integrity (C04), StatementBinding (C05), MegaIsWeightedSum     *)
(*   (C03).  Accept-type conclusions about invalid runs are stated for two *)
(*   independent oracle samples, so that Schwartz-Zippel luck (~1e-3 per   *)
(*   sample at P = 31723) cannot make the model check flaky.               *)
(***************************************************************************)
EXTENDS System

VARIABLES sc,      \* the scenario
          pcnt,    \* position in the scenario's script
          rnd,     \* sampled randomness: [d, chP, chV, alt]
          consts,  \* constants of by-construction constraints (prover side computes, verifier side reuses)
          nch,     \* [P |-> challenges drawn so far, V |-> ...]
          altres   \* the verifier's verdict under a second, independent oracle sample at the diverged challenges

pvars == << vars, sc, pcnt, rnd, consts, nch, altres >>
NZ == 1 .. (P - 1)

(***************************************************************************)
(* Base statements, in the program format of the harness (fix = constant   *)
(* computed from the prover's assignment; cf = <<k0, j, k1>> stands for    *)
(* the coefficient k0 + k1 * (j-th callback challenge)).                   *)
(***************************************************************************)
Mul == [op |-> "allocmul", l |-> 2, r |-> 3]
Bases == <<
  [ops |-> << >>, cb |-> << >>],
  [ops |-> << [op |-> "commit", v |-> 2, vb |-> 3], [op |-> "con", lc |-> << <<"V", 0, <<3, 0, 0>> >>, <<"1", 0, <<5, 0, 0>> >> >>, fix |-> 1] >>, cb |-> << >>],
  [ops |-> << [op |-> "commit", v |-> 2, vb |-> 3], [op |-> "commit", v |-> 5, vb |-> 1], [op |-> "append", label |-> "memo", data |-> << 9 >>],
              [op |-> "mul", l |-> << <<"V", 0, <<1, 0, 0>> >> >>, r |-> << <<"V", 1, <<1, 0, 0>> >> >>],
              [op |-> "con", lc |-> << <<"O", 0, <<2, 0, 0>> >>, <<"V", 1, <<3, 0, 0>> >>, <<"1", 0, <<5, 0, 0>> >> >>, fix |-> 1] >>, cb |-> << >>],
  [ops |-> << [op |-> "alloc", a |-> 4], [op |-> "alloc", a |-> 6], Mul, [op |-> "alloc", a |-> 7],
              [op |-> "con", lc |-> << <<"L", 0, <<1, 0, 0>> >>, <<"R", 0, <<2, 0, 0>> >>, <<"O", 1, <<1, 0, 0>> >>, <<"L", 2, <<1, 0, 0>> >> >>, fix |-> 1] >>, cb |-> << >>],
  [ops |-> << [op |-> "commit", v |-> 4, vb |-> 6], Mul, [op |-> "defer", cb |-> 0] >>,
   cb |-> << [op |-> "chal", label |-> "c"], Mul,
             [op |-> "mul", l |-> << <<"V", 0, <<1, 1, 2>> >> >>, r |-> << <<"L", 0, <<1, 0, 0>> >>, <<"1", 0, <<1, 0, 0>> >> >>],
             [op |-> "append", label |-> "memo2", data |-> << 7 >>],
             [op |-> "con", lc |-> << <<"O", 2, <<1, 0, 0>> >>, <<"V", 0, <<2, 0, 0>> >>, <<"1", 0, <<3, 0, 0>> >> >>, fix |-> 1] >>],
  [ops |-> << [op |-> "defer", cb |-> 0] >>,
   cb |-> << [op |-> "chal", label |-> "c"], [op |-> "chal", label |-> "c"], Mul, Mul, Mul,
             [op |-> "con", lc |-> << <<"L", 0, <<0, 1, 1>> >>, <<"R", 2, <<1, 2, 1>> >> >>, fix |-> 1] >>]
>>

Devs == {"none", "label", "commit-value", "commit-extra", "constant", "coefficient", "blinding-base", "value-base", "append"}
Tams == {"none", "tx", "AI1", "AI2", "b", "badwit"}

\* which deviations apply to which base
HasCommit(b) == \E i \in 1 .. Len(Bases[b].ops) : Bases[b].ops[i].op = "commit"
HasFix(b) == \E i \in 1 .. Len(Bases[b].ops \o Bases[b].cb) : (Bases[b].ops \o Bases[b].cb)[i].op = "con"
HasAppend(b) == \E i \in 1 .. Len(Bases[b].ops \o Bases[b].cb) : (Bases[b].ops \o Bases[b].cb)[i].op = "append"
Applicable(b, dv) ==
  CASE dv \in {"commit-value", "coefficient"} -> HasCommit(b) /\ HasFix(b)
    [] dv = "constant" -> HasFix(b)
    [] dv = "append" -> HasAppend(b)
    [] OTHER -> TRUE

\* the verifier's version of a program op under a deviation
DevOp(o, dv, first) ==
  CASE dv = "commit-value" /\ o.op = "commit" /\ first -> [o EXCEPT !.v = @ + 1]
    [] dv = "constant" /\ o.op = "con" -> [o EXCEPT !.lc = @ \o << <<"1", 0, <<1, 0, 0>> >> >>]
    [] dv = "coefficient" /\ o.op = "con" ->
         [o EXCEPT !.lc = [k \in 1 .. Len(@) |-> IF @[k][1] = "V" /\ @[k][3][2] = 0 THEN <<"V", @[k][2], <<@[k][3][1] + 1, 0, 0>> >> ELSE @[k]]]
    [] dv = "append" /\ o.op = "append" -> [o EXCEPT !.data = @ \o << 1 >>]
    [] OTHER -> o
FirstCommit(ops, i) == ops[i].op = "commit" /\ \A j \in 1 .. i - 1 : ops[j].op # "commit"
VOps(b, dv) == [i \in 1 .. Len(Bases[b].ops) |-> DevOp(Bases[b].ops[i], dv, FirstCommit(Bases[b].ops, i))]
               \o (IF dv = "commit-extra" THEN << [op |-> "commit", v |-> 3, vb |-> 3] >> ELSE << >>)
VCb(b, dv) == [i \in 1 .. Len(Bases[b].cb) |-> DevOp(Bases[b].cb[i], dv, FALSE)]

Gates(b) == LET all == Bases[b].ops \o Bases[b].cb
            IN Len(SelectSeq(all, LAMBDA o : o.op \in {"allocmul", "mul"})) + (Len(SelectSeq(all, LAMBDA o : o.op = "alloc")) + 1) \div 2
Gates1(b) == LET all == Bases[b].ops
             IN Len(SelectSeq(all, LAMBDA o : o.op \in {"allocmul", "mul"})) + (Len(SelectSeq(all, LAMBDA o : o.op = "alloc")) + 1) \div 2
Cap(b) == Pad2(Gates(b)) * 2

(***************************************************************************)
(* Script: the sequence of steps of a scenario.                            *)
(***************************************************************************)
Steps(b, dv, tm) ==
  LET two == Len(Bases[b].cb) > 0 \/ \E i \in 1 .. Len(Bases[b].ops) : Bases[b].ops[i].op = "defer"
      pcalls == [i \in 1 .. Len(Bases[b].ops) |-> [a |-> "call", role |-> "P", o |-> Bases[b].ops[i]]]
      pcb == [i \in 1 .. Len(Bases[b].cb) |-> [a |-> "call", role |-> "P", o |-> Bases[b].cb[i]]]
      vcalls == [i \in 1 .. Len(VOps(b, dv)) |-> [a |-> "call", role |-> "V", o |-> VOps(b, dv)[i]]]
      vcb == [i \in 1 .. Len(VCb(b, dv)) |-> [a |-> "call", role |-> "V", o |-> VCb(b, dv)[i]]]
      bad == IF tm = "badwit" /\ Gates(b) > 0 THEN << [a |-> "call", role |-> "P", o |-> [op |-> "breakgate", i |-> 0]] >> ELSE << >>
      bad1 == IF Gates1(b) > 0 THEN bad ELSE << >>       \* gate 0 is overwritten in the phase that created it
      bad2 == IF Gates1(b) = 0 THEN bad ELSE << >>
  IN << [a |-> "new", role |-> "P"] >> \o pcalls \o bad1
     \o (IF two THEN << [a |-> "prove1"] >> \o pcb \o bad2 \o << [a |-> "prove2"] >> ELSE << [a |-> "prove"] >>)
     \o (IF tm \in {"none", "badwit"} THEN << >> ELSE << [a |-> "tamper", f |-> tm] >>)
     \o << [a |-> "new", role |-> "V"] >> \o vcalls
     \o (IF two THEN << [a |-> "verify1"] >> \o vcb \o << [a |-> "verify2"] >> ELSE << [a |-> "verify"] >>)

Script == Steps(sc.base, sc.dev, sc.tam)
Done == pcnt > Len(Script)

(***************************************************************************)
(* The random oracle.                                                      *)
(***************************************************************************)
CPos(ops) == LET CP[i \in 0 .. Len(ops)] == IF i = 0 THEN << >> ELSE IF ops[i].o = "C" THEN Append(CP[i - 1], i) ELSE CP[i - 1] IN CP[Len(ops)]
\* value of the verifier's k-th challenge, drawn with the given label after the verifier performed vprefix
VChalWith(fresh, k, label, vprefix) ==
  LET pp == CPos(tr.P) IN
  IF k <= Len(pp) /\ tr.P[pp[k]].l = label /\ tr.P[pp[k]].f = 0 /\ Shared(SubSeq(tr.P, 1, pp[k] - 1)) = Shared(vprefix)
  THEN rnd.chP[k] ELSE fresh[k]
VChal(k, label, vprefix) == VChalWith(rnd.chV, k, label, vprefix)

\* challenge scalars of the verify step: positions of the challenges in the operations the verifier will perform
VerifyChalsWith(fresh, ops, k0) ==
  LET full == tr.V \o ops
      cp == SelectSeq(CPos(full), LAMBDA q : q > Len(tr.V))
  IN [j \in 1 .. Len(cp) |-> IF full[cp[j]].f = 0 THEN VChalWith(fresh, k0 + j, full[cp[j]].l, SubSeq(full, 1, cp[j] - 1)) ELSE fresh[k0 + j]]
VerifyChals(ops, k0) == VerifyChalsWith(rnd.chV, ops, k0)
DummyCh == [j \in 1 .. 16 |-> 1]

(***************************************************************************)
(* Program op -> model call of a role (constants of fix constraints, challenge-dependent coefficients)                *)
(***************************************************************************)
ChalOf(role, j) == IF role = "P" THEN rnd.chP[j] ELSE rnd.cbV[j]
\* a coefficient <<k0, j, k1>> stands for k0 + k1 * (j-th callback challenge); j = 0: the constant k0
Coef(role, c) == IF c[2] = 0 THEN Norm(c[1]) ELSE Fadd(Norm(c[1]), Fmul(Norm(c[3]), ChalOf(role, c[2])))
LCof(role, lc) == [k \in 1 .. Len(lc) |-> <<lc[k][1], lc[k][2], Coef(role, lc[k][3])>>]
ModelCall(role, o) ==
  CASE o.op = "con" ->
         LET m == LCof(role, o.lc)
             nfixterms == Len(Bases[sc.base].ops) \* unused
             base == IF role = "P" THEN m ELSE m
         IN [op |-> "con",
             lc |-> IF role = "P"
                    THEN LET core == LCof("P", o.lc) IN core \o << <<"1", 0, Fneg(PEval(cs.P, core))>> >>
                    ELSE m \o << <<"1", 0, consts[o.fix]>> >>]
    [] o.op = "mul" -> [op |-> "mul", l |-> LCof(role, o.l), r |-> LCof(role, o.r)]
    [] o.op = "commit" -> IF role = "P" THEN o ELSE [op |-> "commit", V |-> Commit(env.P, o.v, o.vb)]
    [] o.op = "breakgate" -> IF role = "P"
                             THEN [op |-> "setgate", i |-> o.i, l |-> cs.P.aL[o.i + 1], r |-> cs.P.aR[o.i + 1], o |-> Fadd(cs.P.aO[o.i + 1], 1)]
                             ELSE [op |-> "setgate", i |-> o.i]
    [] OTHER -> o

(***************************************************************************)
Env0 == [B |-> 1, Bb |-> 7919, G |-> [i \in 1 .. 16 |-> 1000 + 37 * i], H |-> [i \in 1 .. 16 |-> 5000 + 91 * i]]
EnvV(dv) == CASE dv = "blinding-base" -> [Env0 EXCEPT !.Bb = Fmul(3, 7919)]
              [] dv = "value-base" -> [Env0 EXCEPT !.B = 3]
              [] OTHER -> Env0

PInitMC ==
  /\ sc \in {s \in [base : 1 .. Len(Bases), dev : Devs, tam : Tams] : Applicable(s.base, s.dev) /\ (s.dev = "none" \/ s.tam = "none")
                                                                     /\ (s.tam = "badwit" => Gates(s.base) > 0)}
  /\ env = [P |-> Env0, V |-> EnvV(sc.dev)]
  /\ cs = [P |-> PInit, V |-> VInit]
  /\ tr = [P |-> << >>, V |-> << >>]
  /\ ph = [P |-> "none", V |-> "none"]
  /\ mid = [P |-> << >>, V |-> << >>]
  /\ wire = NoProof /\ sent = NoProof
  /\ res = [P |-> "", V |-> ""]
  /\ cberr = [P |-> "", V |-> ""]
  /\ degen = FALSE
  /\ out = NoOut
  /\ pcnt = 1
  /\ rnd = [d |-> [k \in 1 .. 40 |-> RandomElement(NZ)], chP |-> [k \in 1 .. 16 |-> RandomElement(NZ)],
            chV |-> [k \in 1 .. 16 |-> RandomElement(NZ)], alt |-> [k \in 1 .. 16 |-> RandomElement(NZ)], cbV |-> << >>]
  /\ consts = << >>
  /\ nch = [P |-> 0, V |-> 0]
  /\ altres = ""

Pre(role) == << OpA("dom-sep", "str", IF role = "V" /\ sc.dev = "label" THEN "verif2" ELSE "verif") >>

StepNew(s) == New(s.role, Pre(s.role)) /\ UNCHANGED << rnd, consts, nch, altres >>

StepCall(s) ==
  LET o == s.o
      isV == s.role = "V"
      \* a challenge drawn inside a verifier callback: its value comes from the oracle
      cv == IF o.op = "chal" /\ isV THEN VChal(nch.V + 1, o.label, tr.V) ELSE 0
      rnd2 == IF o.op = "chal" /\ isV THEN [rnd EXCEPT !.cbV = Append(@, cv)] ELSE rnd
  IN /\ Call(s.role, ModelCall(s.role, o))
     /\ rnd' = rnd2
     /\ nch' = IF o.op = "chal" THEN [nch EXCEPT ![s.role] = @ + 1] ELSE nch
     /\ consts' = IF o.op = "con" /\ ~isV
                  THEN LET c == ModelCall("P", o).lc IN Append(consts, c[Len(c)][3])     \* fix ids are 1, 2, .. in order
                  ELSE consts
     /\ UNCHANGED altres

Draws(k) == SubSeq(rnd.d, k + 1, Len(rnd.d))
PCh == SubSeq(rnd.chP, nch.P + 1, 16)

\* (the capacity is a parameter so that MC_Library can take it from a generator table)
StepProve1C(cap) ==
  LET r == ProveP1(env.P, cap, cs.P, rnd.d) IN
  /\ ProveStart(cap, rnd.d, RefEm(r.mid))
  /\ UNCHANGED << rnd, consts, nch, altres >>
StepProve2C(cap) ==
  LET r == ProveP2(env.P, cap, cs.P, mid.P.ref, Draws(3 + 2 * mid.P.ref.n1), PCh) IN
  /\ ProveFinish(cap, Draws(3 + 2 * mid.P.ref.n1), PCh, r.proof)
  /\ UNCHANGED << rnd, consts, nch, altres >>
StepProveC(cap) ==
  LET r1 == ProveP1(env.P, cap, cs.P, rnd.d)
      r2 == IF r1.res = "" THEN ProveP2(env.P, cap, r1.st, r1.mid, Draws(r1.used), PCh) ELSE [proof |-> NoProof] IN
  /\ Prove(cap, rnd.d, PCh, r2.proof)
  /\ UNCHANGED << rnd, consts, nch, altres >>
StepProve1 == StepProve1C(Cap(sc.base))
StepProve2 == StepProve2C(Cap(sc.base))
StepProve == StepProveC(Cap(sc.base))

Tampered(pf, f) ==
  CASE f = "tx" -> [pf EXCEPT !.tx = Fadd(@, 1)]
    [] f = "b" -> [pf EXCEPT !.b = Fadd(@, 1)]
    [] f = "ident" -> [pf EXCEPT !.S1 = 0]                    \* (MC_BatchSys: a member that fails early - identity in a mandatory position)
    [] f = "surplus" -> [pf EXCEPT !.L = Append(@, 77), !.R = Append(@, 78)]      \* (MC_BatchSys: fails the shape guard)
    [] f = "bminus" -> [pf EXCEPT !.b = Fsub(@, 1)]          \* (MC_BatchSys: the partner of "b" in a correlated pair)
    [] f = "AI1" -> [pf EXCEPT !.AI1 = Fadd(@, 5)]
    [] f = "AI2" -> [pf EXCEPT !.AI2 = Fadd(@, 5)]
StepTamper(s) == wire # NoProof /\ Adversary(Tampered(wire, s.f)) /\ UNCHANGED << rnd, consts, nch, altres >>

StepVerify1 == VerifyStart /\ UNCHANGED << rnd, consts, nch, altres >>
StepVerify2C(cap) ==
  LET ops == VerifyP2(env.V, cap, cs.V, mid.V.n1, wire, DummyCh).ops IN
  /\ VerifyFinish(cap, VerifyChals(ops, nch.V))
  /\ altres' = VerifyP2(env.V, cap, cs.V, mid.V.n1, wire, VerifyChalsWith(rnd.alt, ops, nch.V)).res
  /\ UNCHANGED << rnd, consts, nch >>
StepVerifyC(cap) ==
  LET r1 == VerifyP1(cs.V, wire)
      ops == IF r1.res = "" THEN r1.ops \o VerifyP2(env.V, cap, r1.st, r1.n1, wire, DummyCh).ops ELSE r1.ops IN
  /\ Verify(cap, VerifyChals(ops, nch.V))
  /\ altres' = IF r1.res # "" THEN r1.res
               ELSE VerifyP2(env.V, cap, r1.st, r1.n1, wire, VerifyChalsWith(rnd.alt, ops, nch.V)).res
  /\ UNCHANGED << rnd, consts, nch >>
StepVerify2 == StepVerify2C(Cap(sc.base))
StepVerify == StepVerifyC(Cap(sc.base))

PNextMC ==
  /\ ~Done
  /\ pcnt' = pcnt + 1
  /\ LET s == Script[pcnt] IN
       CASE s.a = "new" -> StepNew(s)
         [] s.a = "call" -> StepCall(s)
         [] s.a = "prove1" -> StepProve1
         [] s.a = "prove2" -> StepProve2
         [] s.a = "prove" -> StepProve
         [] s.a = "tamper" -> StepTamper(s)
         [] s.a = "verify1" -> StepVerify1
         [] s.a = "verify2" -> StepVerify2
         [] s.a = "verify" -> StepVerify
  /\ UNCHANGED sc

PSpecMC == PInitMC /\ [][PNextMC]_pvars

(***************************************************************************)
(* Properties                                                              *)
(***************************************************************************)
Valid == sc.dev = "none" /\ sc.tam = "none"
Finished == Done /\ res.V # ""
CompletenessMC == (Finished /\ Valid /\ ~degen /\ MandatoryNonIdentity(sent)) => res.V = "ok"
RoleSyncMC == RoleSync
\* an invalid run (bad witness, deviating statement, altered proof) is rejected; an acceptance would have to repeat under an
\* independent oracle sample to count (soundness error ~1e-3 per sample at P = 31723)
ValueBaseCarveOut == sc.dev = "value-base" /\ Gates(sc.base) = 0
RejectsInvalid == (Finished /\ ~Valid /\ ~degen /\ ~ValueBaseCarveOut) => (res.V # "ok" \/ altres # "ok")
MegaIdentity == (Finished /\ out.ref # << >> /\ out.ref.nz) => out.ref.mega = Fadd(out.ref.Ires, Fmul(out.ref.r, out.ref.Tres))

\* C06 FSBinding on the operation lists of both roles: before a challenge is drawn, everything the interactive protocol has sent by
\* then has been absorbed - written independently of the schedule, as the protocol's rounds
Before(ops, lab, chal) ==
  \A j \in 1 .. Len(ops) : (ops[j].o = "C" /\ ops[j].l = chal /\ ops[j].f = 0) =>
     \E i \in 1 .. j - 1 : ops[i].o = "A" /\ ops[i].l = lab
FSBindingOf(ops, ncommit) ==
  /\ \A lab \in {"m", "A_I1", "A_O1", "S1", "A_I2", "A_O2", "S2"} : Before(ops, lab, "y") /\ Before(ops, lab, "z")
  /\ ncommit > 0 => Before(ops, "V", "y")
  /\ \A lab \in {"T_1", "T_3", "T_4", "T_5", "T_6"} : Before(ops, lab, "x")
  /\ \A lab \in {"t_x", "t_x_blinding", "e_blinding"} : Before(ops, lab, "w")
  \* each round challenge u_k follows its own L_k and R_k: the two operations right before it
  /\ \A j \in 3 .. Len(ops) : (ops[j].o = "C" /\ ops[j].l = "u" /\ ops[j - 1].o = "A" /\ ops[j - 1].l = "R") => ops[j - 2].l = "L"
  \* the commitment count and every commitment precede the first protocol message
  /\ \A j \in 1 .. Len(ops) : (ops[j].o = "A" /\ ops[j].l = "V") => \A i \in 1 .. j : ~(ops[i].o = "A" /\ ops[i].l = "m")
FSBinding == (Finished /\ res.P = "ok" /\ res.V = "ok") => (FSBindingOf(tr.P, Len(cs.P.v)) /\ FSBindingOf(tr.V, Len(cs.V.V)))

\* non-vacuity probes: each must be VIOLATED (the check driver requires it)
NV_ValidAccepted == ~(Finished /\ Valid /\ res.V = "ok" /\ Len(cs.P.aL) >= 3 /\ cs.P.ndefer > 0)
NV_InvalidRejected == ~(Finished /\ ~Valid /\ res.V = "VerificationError" /\ out.ref # << >>)

ProtocolInv == CompletenessMC /\ RoleSyncMC /\ RejectsInvalid /\ MegaIdentity /\ FSBinding /\ PendingClosed

=============================================================================
