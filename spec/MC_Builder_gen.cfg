SPECIFICATION MCSpec
CONSTANTS
  P = 31723
  MaxCalls = 4
  GEN = TRUE
  Rich = FALSE
INVARIANT MCInv
INVARIANT Emit
CHECK_DEADLOCK FALSE
