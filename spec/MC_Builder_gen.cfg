SPECIFICATION MCSpec
CONSTANTS
  P = 31723
  MaxCalls = 4
  GEN = TRUE
  Rich = FALSE
  MaxDev = 1
INVARIANT MCInv
INVARIANT Emit
CHECK_DEADLOCK FALSE
