SPECIFICATION MCSpec
CONSTANTS
  P = 31723
  MaxCalls = 5
  GEN = FALSE
  Rich = FALSE
  MaxDev = 1
INVARIANT MCInv
INVARIANT Emit
VIEW View
CHECK_DEADLOCK FALSE
