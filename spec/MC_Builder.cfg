SPECIFICATION MCSpec
CONSTANTS
  P = 31723
  MaxCalls = 5
  GEN = FALSE
  Rich = FALSE
INVARIANT MCInv
INVARIANT Emit
VIEW View
CHECK_DEADLOCK FALSE
