SPECIFICATION TraceSpec
CONSTANT P = 31723
POSTCONDITION TraceAccepted
INVARIANT StatementBinding
CHECK_DEADLOCK FALSE
