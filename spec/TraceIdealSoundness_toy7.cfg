SPECIFICATION TraceSpec
CONSTANT P = 7
POSTCONDITION TraceAccepted
INVARIANT IdealSoundness
CHECK_DEADLOCK FALSE
