------------------------------- MODULE Merlin -------------------------------
(***************************************************************************)
(* The Merlin transcript as the protocol sees it: an ordered list of       *)
(* operations.  A challenge is determined by the list of operations that   *)
(* precede it (random-oracle abstraction), so two roles whose lists agree  *)
(* op for op derive the same challenges, and a role whose list differs in  *)
(* any label or payload before a challenge derives an independent one.     *)
(*                                                                         *)
(* Operation kinds (field o):                                              *)
(*   "A"  append_message(label, payload)     payload typed by field t:     *)
(*          "pt"  uncompressed point, v = discrete log (0 = identity)      *)
(*          "sc"  uncompressed scalar, v \in F                             *)
(*          "u64" little-endian u64 (append_u64), v = the number           *)
(*          "str" ASCII text, v = the string (domain separators)           *)
(*          "raw" application bytes, v = sequence of bytes                 *)
(*   "C"  challenge_bytes(label, 32) -> ChaCha seed -> ScalarField::rand   *)
(*   "CL" clone of the transcript (fork id f > 0)                          *)
(*   "RB" build_rng (fork of the strobe state for the prover RNG)          *)
(*   "RK" rekey_with_witness_bytes(label, payload) on the RNG builder      *)
(*   "RF" finalize(external rng): draws 32 bytes from the caller's RNG     *)
(* Field f: 0 = the role's main transcript, k > 0 = its k-th clone.        *)
(***************************************************************************)
EXTENDS Integers, Sequences

OpA(label, t, v) == [o |-> "A", l |-> label, t |-> t, v |-> v, f |-> 0]
OpC(label)       == [o |-> "C", l |-> label, f |-> 0]
OpCf(label, k)   == [o |-> "C", l |-> label, f |-> k]
OpCL(k)          == [o |-> "CL", f |-> k]
OpRB             == [o |-> "RB", f |-> 0]
OpRK(label, v)   == [o |-> "RK", l |-> label, t |-> "sc", v |-> v, f |-> 0]
OpRF             == [o |-> "RF", f |-> 0]

\* transcript.rs
DomSepR1CS   == OpA("dom-sep", "str", "r1cs v1")
DomSep1Phase == OpA("dom-sep", "str", "r1cs-1phase")
DomSep2Phase == OpA("dom-sep", "str", "r1cs-2phase")
DomSepIPP(n) == << OpA("dom-sep", "str", "ipp v1"), OpA("n", "u64", n) >>

IsChallenge(op) == op.o = "C"
MainOps(ops) == SelectSeq(ops, LAMBDA op : op.f = 0 /\ op.o \in {"A", "C"})
=============================================================================
