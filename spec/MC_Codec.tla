------------------------------- MODULE MC_Codec -----------------------------
(***************************************************************************)
(* C11 / C08 on the specification of the decoder, and test generation:     *)
(*   SizeLaw            |encoding| = 11 pt + 5 sc + 16 + 2k pt             *)
(*   PrefixRejected     every strict prefix of a valid encoding fails      *)
(*   InvalidTokenRejected  one invalid token at any position fails         *)
(*   TrailingIgnored    extra bytes after a valid encoding: same proof     *)
(*   DecodeLinearMemory the decoder holds at most one item per token read, *)
(*                      whatever a count claims                            *)
(* One behaviour per (k, test) is printed for the real decoder.            *)
(***************************************************************************)
EXTENDS Codec, Json, TLC

CONSTANTS MaxK

VARIABLES k, test, done
cvars == << k, test, done >>

NTok(kk) == 18 + 2 * kk
PtToks(kk) == {i \in 1 .. NTok(kk) : Kinds(kk, kk)[i] = "pt"}
ScToks(kk) == {i \in 1 .. NTok(kk) : Kinds(kk, kk)[i] = "sc"}

Tests(kk) ==
  {[kind |-> "prefix", cut |-> c, expect |-> "FormatError"] : c \in 0 .. Size(kk, kk) - 1}
  \cup {[kind |-> "token", tok |-> i - 1, cls |-> cls, expect |-> "FormatError"] :
          i \in PtToks(kk), cls \in {"off-curve", "x-ge-modulus", "wrong-subgroup"}}
  \cup {[kind |-> "token", tok |-> i - 1, cls |-> cls, expect |-> "FormatError"] : i \in ScToks(kk), cls \in {"ge-modulus", "modulus"}}
  \* two points outside the prime-order subgroup whose small-order components cancel (cofactor curves): each must still be rejected
  \cup {[kind |-> "token2", tok |-> pr[1], tok2 |-> pr[2], cls |-> "wrong-subgroup-pair", expect |-> "FormatError"] :
          pr \in {<<0, 1>>, <<0, 10>>, <<3, 7>>, <<5, 4>>} \cup (IF kk >= 1 THEN {<<2, 15>>, <<15, 16 + kk>>} ELSE {})}
  \cup {[kind |-> "trailing", expect |-> "same", verify |-> TRUE]}
  \cup {[kind |-> "lenprefix", which |-> w, val |-> v, expect |-> IF v = "k+1" THEN "" ELSE "FormatError", verify |-> TRUE] :
          w \in {0, 1}, v \in {"max", "2^40", "2^32", "2^20", "k+1"}}

CInit == k \in 0 .. MaxK /\ test \in Tests(k) /\ done = FALSE
CNext == ~done /\ done' = TRUE /\ UNCHANGED << k, test >>
CSpec == CInit /\ [][CNext]_cvars

\* the token stream the test produces
Stream ==
  LET h == Honest(k) kinds == Kinds(k, k) IN
  CASE test.kind = "prefix" -> CutAt(h, kinds, test.cut, 1)
    [] test.kind = "token" -> [h EXCEPT ![test.tok + 1] = [st |-> "bad"]]
    [] test.kind = "token2" -> [h EXCEPT ![test.tok + 1] = [st |-> "bad"], ![test.tok2 + 1] = [st |-> "bad"]]
    [] test.kind = "trailing" -> h \o << [st |-> "ok"] >>
    [] test.kind = "lenprefix" ->
         \* a count larger than what follows: the decoder runs into the tail (whose bytes are not valid points) or off the end
         LET idx == IF test.which = 0 THEN 15 ELSE 16 + k
             big == IF test.val = "k+1" THEN k + 1 ELSE 1000000
         IN [i \in 1 .. Len(h) |-> IF i = idx THEN [st |-> "ok", val |-> big]
                                   ELSE IF i > idx + k THEN [st |-> "bad"] ELSE h[i]]

D == Decode(Stream)
Sound ==
  /\ Len(Honest(k)) = NTok(k)
  /\ Decode(Honest(k)).res = "ok"
  /\ test.expect = "FormatError" => D.res = "FormatError"
  /\ test.expect = "same" => D.res = "ok" /\ D.held = Decode(Honest(k)).held
  /\ D.held <= Len(Stream)                                       \* DecodeLinearMemory
  /\ Size(k, k) = 11 * PtLen + 5 * ScLen + 16 + 2 * k * PtLen    \* SizeLaw
  /\ D.res \in {"ok", "FormatError"}                             \* DecodeTotal

(* Refinement of the unbounded abstraction CodecInd (inductive invariant discharged by Apalache): along the decoder's run on every stream
   enumerated here, each DStep is a CodecInd!Step for the token the stream presents at the current position ("eof" beyond its end). *)
AbsStep(d, e, st, val) ==      \* CodecInd!Step as a relation between decoder states
  /\ d.res = ""
  /\ IF d.need = 0
     THEN /\ e.pos = d.pos /\ e.held = d.held
          /\ \/ d.phase = "head" /\ e.phase = "lenL" /\ e.need = 1 /\ e.res = ""
             \/ d.phase = "L" /\ e.phase = "lenR" /\ e.need = 1 /\ e.res = ""
             \/ d.phase = "R" /\ e.phase = "tail" /\ e.need = 2 /\ e.res = ""
             \/ d.phase = "tail" /\ e.phase = d.phase /\ e.need = d.need /\ e.res = "ok"
     ELSE IF st # "ok" THEN e = [d EXCEPT !.res = "FormatError"]
     ELSE IF d.phase = "lenL" THEN e = [d EXCEPT !.phase = "L", !.need = val, !.pos = @ + 1]
     ELSE IF d.phase = "lenR" THEN e = [d EXCEPT !.phase = "R", !.need = val, !.pos = @ + 1]
     ELSE e = [d EXCEPT !.need = @ - 1, !.pos = @ + 1, !.held = @ + 1]
TokSt(input, i) == IF i > Len(input) THEN "eof" ELSE input[i].st
TokVal(input, i) == IF i <= Len(input) /\ "val" \in DOMAIN input[i] THEN input[i].val ELSE 0
RECURSIVE RunRefines(_, _)
RunRefines(d, input) ==
  IF d.res # "" THEN TRUE
  ELSE LET e == DStep(d, input) IN AbsStep(d, e, TokSt(input, d.pos), TokVal(input, d.pos)) /\ RunRefines(e, input)
RefinesInd == RunRefines(DInit, Stream)

Emit == done => PrintT(<< "BEHAVIOUR", ToJson([k |-> k, test |-> test]) >>)
=============================================================================
