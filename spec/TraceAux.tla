------------------------------ MODULE TraceAux ------------------------------
(***************************************************************************)
(* Trace validation of the stateless components on toy curves:             *)
(*   pedersen / prover_commit   PedersenGens::commit, Prover::commit (C13) *)
(*   ipp_create / ipp_verify    InnerProductProof::create / verify   (C10) *)
(* Every event carries all inputs as small integers (points as discrete    *)
(* logs); TLC recomputes every output with the operators of IPP / R1CS.    *)
(***************************************************************************)
EXTENDS R1CS, Json, IOUtils, TLC

Rec == ndJsonDeserialize(IOEnv.TRACE)
VARIABLE l
Has(r, f) == f \in DOMAIN r
Ev == Rec[l]
IsEvent(e) == l <= Len(Rec) /\ Rec[l].ev = e /\ l' = l + 1

PtLen == IF "PTLEN" \in DOMAIN IOEnv THEN IOEnv.PTLEN ELSE "0"

\* CMP_L = "0": operation labels and separator texts are not compared (they are C06 / C18 matters); kinds, order and payload
\* identity still are
CmpL == ~("CMP_L" \in DOMAIN IOEnv /\ IOEnv.CMP_L = "0")
OpMatch(r, e) ==
  /\ r.o = e.o /\ r.f = e.f
  /\ (CmpL /\ e.o \in {"A", "C"}) => r.l = e.l
  /\ e.o = "A" =>
       CASE e.t = "pt"  -> Has(r, "pt") /\ r.pt = e.v
         [] e.t = "sc"  -> Has(r, "sc") /\ r.sc = e.v
         [] e.t = "u64" -> Has(r, "u64") /\ r.u64 = e.v /\ r.len = 8
         [] e.t = "str" -> Has(r, "str") /\ (CmpL => r.str = e.v)
         [] e.t = "raw" -> Has(r, "raw") /\ r.raw = e.v
OpsMatch(logged, model) ==
  /\ Len(logged) = Len(model)
  /\ \A k \in 1 .. Len(logged) : OpMatch(logged[k], model[k])
\* AUX_OPS = "1": the transcript operations inside the inner-product argument are compared too. Off by default: C10 speaks about openings,
\* rounds and verdicts; which operations bind them is C06's / C18's statement and is judged on the full protocol traces.
CmpOps == "AUX_OPS" \in DOMAIN IOEnv /\ IOEnv.AUX_OPS = "1"

(* C13 *)
Pedersen ==
  /\ IsEvent("pedersen")
  /\ Ev.C = Commit([B |-> Ev.B, Bb |-> Ev.Bb], Ev.v, Ev.r)

ProverCommit ==
  /\ IsEvent("prover_commit")
  /\ Ev.C = Commit([B |-> Ev.B, Bb |-> Ev.Bb], Ev.v, Ev.r)
  /\ CmpOps => OpsMatch(Ev.tx, << OpA("V", "pt", Ev.C) >>)

(* C10 *)
IppCreate ==
  /\ IsEvent("ipp_create")
  /\ LET m == Create(Ev.a, Ev.b, Ev.G, Ev.H, Ev.Gf, Ev.Hf, Ev.Q, Ev.ch)
         Gp == Had(Ev.Gf, Ev.G)  Hp == Had(Ev.Hf, Ev.H)
     IN \/ m.degenerate                       \* zero challenge: create panics (inverse().unwrap())
        \/ /\ Ev.res = "ok"
           /\ Ev.proof = [L |-> m.L, R |-> m.R, a |-> m.a, b |-> m.b]
           /\ Len(m.L) = Lg(Ev.n) /\ Pow2(Len(m.L)) = Ev.n          \* exactly k rounds
           /\ CmpOps => OpsMatch(Ev.tx, CreateOps(Ev.n, m))
           /\ Ev.P = Statement(Ev.a, Ev.b, Gp, Hp, Ev.Q)            \* the harness' statement point
           \* the unrolled first round equals the generic round on pre-scaled generators
           /\ Ev.n > 1 => FirstRound(Ev.a, Ev.b, Ev.G, Ev.H, Ev.Gf, Ev.Hf, Ev.Q, Ev.ch[1])
                            = Round(Ev.a, Ev.b, Gp, Hp, Ev.Q, Ev.ch[1])

\* the verifier's replay of the rounds, up to the first identity point
RoundsVal(pf, n) ==
  LET RV[j \in 0 .. Len(pf.L)] ==
        IF j = 0 THEN [ok |-> TRUE, ops |-> DomSepIPP(n)]
        ELSE LET prev == RV[j - 1] IN
             IF ~prev.ok THEN prev
             ELSE IF pf.L[j] = 0 THEN [ok |-> FALSE, ops |-> prev.ops]
             ELSE IF pf.R[j] = 0 THEN [ok |-> FALSE, ops |-> Append(prev.ops, OpA("L", "pt", pf.L[j]))]
             ELSE [ok |-> TRUE, ops |-> prev.ops \o << OpA("L", "pt", pf.L[j]), OpA("R", "pt", pf.R[j]), OpC("u") >>]
  IN RV[Len(pf.L)]

IppVerify ==
  /\ IsEvent("ipp_verify")
  /\ LET pf == Ev.proof
         shape == ShapeOk(Ev.n, Len(pf.L), Len(pf.R))
         rv == RoundsVal(pf, Ev.n)
         us == [j \in 1 .. Len(pf.L) |-> IF j <= Len(Ev.ch) THEN Ev.ch[j] ELSE 1]
         nz == \A j \in 1 .. Len(us) : us[j] # 0
         Gp == Had(Ev.Gf, Ev.G)  Hp == Had(Ev.Hf, Ev.H)
     IN IF ~shape THEN Ev.res = "VerificationError" /\ (CmpOps => Ev.tx = << >>)
        ELSE IF ~rv.ok THEN Ev.res = "VerificationError" /\ (CmpOps => OpsMatch(Ev.tx, rv.ops))
        ELSE /\ CmpOps => OpsMatch(Ev.tx, rv.ops)
             /\ (Ev.res = "ok") <=> VerifyMsm(Ev.n, pf, us, Ev.Gf, Ev.Hf, Ev.P, Ev.Q, Ev.G, Ev.H)
             /\ Ev.res \in {"ok", "VerificationError"}
             \* IppEqFold: the verdict coincides with explicitly folding the generators
             /\ nz => ((Ev.res = "ok") <=> (FoldResidual(pf, us, Ev.P, Ev.Q, Gp, Hp) = 0))

TraceInit == l = 1
TraceNext == Pedersen \/ ProverCommit \/ IppCreate \/ IppVerify
TraceSpec == TraceInit /\ [][TraceNext]_l

TraceAccepted ==
  LET d == TLCGet("stats").diameter IN
  IF d - 1 = Len(Rec) THEN TRUE
  ELSE /\ PrintT(<< "TRACE-REJECTED", "first unmatched event", d, Rec[d] >>)
       /\ FALSE
=============================================================================
