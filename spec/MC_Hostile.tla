------------------------------ MODULE MC_Hostile ----------------------------
(***************************************************************************)
(* C08: verification is a total function of structurally arbitrary proof   *)
(* objects.  Grid: gate count n, lengths (|L|, |R|) of the two inner-      *)
(* product point lists, and one field forced to the identity / to zero.    *)
(* TotalVerifier: the specification's verifier (VerifyP1 ; VerifyP2)       *)
(* evaluates to "ok" or an error value at every grid point - its shape     *)
(* guard is |L| < 32, padded n = 2^|L|, |R| = |L|.  Every grid point is    *)
(* printed and forced through the real verify (and batch_verify).          *)
(***************************************************************************)
EXTENDS R1CS, Json, TLC

CONSTANTS MaxN, MaxLen, LongLens     \* LongLens: a sparse set of large list lengths (around the 32 / 64 boundaries)

VARIABLES g, done
hvars == << g, done >>

HonestShape(x) == x.nL = x.nR /\ x.nL <= 30 /\ Pow2(x.nL) = Pad2(x.n)
PtFields == {"AI1", "AO1", "S1", "AI2", "AO2", "S2", "T1", "T3", "T4", "T5", "T6", "L1", "R1"}
ScFields == {"tx", "txb", "eb", "a", "b"}

HInit == /\ \/ g \in [n : 0 .. MaxN, nL : 0 .. MaxLen, nR : 0 .. MaxLen, zero : {""} \cup PtFields \cup ScFields]
            \/ g \in [n : {1, 3}, nL : LongLens \cup {0, 1}, nR : LongLens \cup {0, 1}, zero : {""}]
         /\ (g.zero # "" => HonestShape(g))    \* field edits on the honest shape only
         /\ (g.zero \in {"L1", "R1"} => g.nL >= 1)
         /\ done = FALSE
HNext == ~done /\ done' = TRUE /\ UNCHANGED g
HSpec == HInit /\ [][HNext]_hvars

Env == [B |-> 1, Bb |-> 7, G |-> [i \in 1 .. 16 |-> 10 + i], H |-> [i \in 1 .. 16 |-> 40 + i]]
St == [VInit EXCEPT !.nv = g.n]
Z(f, v) == IF g.zero = f THEN 0 ELSE v
Proof == [AI1 |-> Z("AI1", 3), AO1 |-> Z("AO1", 5), S1 |-> Z("S1", 7), AI2 |-> Z("AI2", 0), AO2 |-> Z("AO2", 0), S2 |-> Z("S2", 0),
          T1 |-> Z("T1", 11), T3 |-> Z("T3", 13), T4 |-> Z("T4", 17), T5 |-> Z("T5", 19), T6 |-> Z("T6", 23),
          tx |-> Z("tx", 29), txb |-> Z("txb", 31), eb |-> Z("eb", 37), a |-> Z("a", 41), b |-> Z("b", 43),
          L |-> [j \in 1 .. g.nL |-> IF g.zero = "L1" /\ j = 1 THEN 0 ELSE 50 + j],
          R |-> [j \in 1 .. g.nR |-> IF g.zero = "R1" /\ j = 1 THEN 0 ELSE 60 + j]]
Ch == [j \in 1 .. 6 + g.nL |-> 100 + j]

Verdict ==
  LET r1 == VerifyP1(St, Proof) IN
  IF r1.res # "" THEN r1.res ELSE VerifyP2(Env, Pad2(g.n), r1.st, r1.n1, Proof, Ch).res

TotalVerifier == Verdict \in {"ok", "VerificationError"}
ShapeGuardExact == (g.zero = "" /\ ~HonestShape(g)) => Verdict = "VerificationError"
MandatoryIdentityRejected == g.zero \in {"AI1", "AO1", "S1", "T1", "T3", "T4", "T5", "T6", "L1", "R1"} => Verdict = "VerificationError"

\* ideal expectation for the real curves: only the honest shape with untouched content is accepted
Expect == IF g.zero = "" THEN (IF HonestShape(g) THEN "ok" ELSE "VerificationError")
          ELSE IF g.zero \in ScFields \cup {"AI2", "AO2", "S2"} THEN "reject_or_same" ELSE "VerificationError"
Emit == done => PrintT(<< "BEHAVIOUR", ToJson([n |-> g.n, nL |-> g.nL, nR |-> g.nR, zero |-> g.zero, k |-> Lg(Pad2(g.n)), expect |-> Expect]) >>)
=============================================================================
