SPECIFICATION TraceSpec
CONSTANT P = 79
POSTCONDITION TraceAccepted
INVARIANT IdealShape
CHECK_DEADLOCK FALSE
