SPECIFICATION LSpec
CONSTANTS
  P = 31723
  MaxCap = 4
INVARIANT LibInv
INVARIANT RunsToEnd
PROPERTY ChainGrows
CHECK_DEADLOCK FALSE
