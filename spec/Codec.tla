-------------------------------- MODULE Codec -------------------------------
(***************************************************************************)
(* The proof encoding (proof.rs:74-90 with the derived layout of R1CSProof *)
(* and InnerProductProof) as a decoder state machine over a stream of      *)
(* tokens.  Layout: 11 points, 3 scalars, count, that many points, count,  *)
(* that many points, 2 scalars.  A token of the input stream is            *)
(*   [st |-> "ok"]            a complete, valid token of whatever kind the *)
(*                            decoder expects next                         *)
(*   [st |-> "bad"]           complete but invalid (scalar >= modulus,     *)
(*                            x not on the curve, point outside the        *)
(*                            prime-order subgroup, non-canonical x)       *)
(*   [st |-> "cut"]           the input ends inside this token             *)
(*   [st |-> "ok", val |-> c] a count                                      *)
(* The decoder reads one token at a time; it never allocates from a count. *)
(***************************************************************************)
EXTENDS Integers, Sequences

CONSTANTS PtLen, ScLen      \* compressed sizes of a point and a scalar, in bytes

Size(kL, kR) == 11 * PtLen + 5 * ScLen + 16 + (kL + kR) * PtLen
Kinds(kL, kR) == [i \in 1 .. 11 |-> "pt"] \o [i \in 1 .. 3 |-> "sc"] \o << "len" >> \o [i \in 1 .. kL |-> "pt"]
                   \o << "len" >> \o [i \in 1 .. kR |-> "pt"] \o << "sc", "sc" >>
TokLen(kind) == CASE kind = "pt" -> PtLen [] kind = "sc" -> ScLen [] kind = "len" -> 8

\* decoder state: phase, tokens still to read in this phase, position in the input, tokens held
DInit == [phase |-> "head", need |-> 14, pos |-> 1, held |-> 0, res |-> ""]

DStep(d, input) ==
  IF d.res # "" THEN d
  ELSE IF d.need = 0 THEN
       CASE d.phase = "head" -> [d EXCEPT !.phase = "lenL", !.need = 1]
         [] d.phase = "L"    -> [d EXCEPT !.phase = "lenR", !.need = 1]
         [] d.phase = "R"    -> [d EXCEPT !.phase = "tail", !.need = 2]
         [] d.phase = "tail" -> [d EXCEPT !.res = "ok"]          \* trailing input is ignored
         [] OTHER -> d
  ELSE IF d.pos > Len(input) \/ input[d.pos].st # "ok" THEN [d EXCEPT !.res = "FormatError"]
  ELSE IF d.phase = "lenL" THEN [d EXCEPT !.phase = "L", !.need = input[d.pos].val, !.pos = @ + 1]
  ELSE IF d.phase = "lenR" THEN [d EXCEPT !.phase = "R", !.need = input[d.pos].val, !.pos = @ + 1]
  ELSE [d EXCEPT !.need = @ - 1, !.pos = @ + 1, !.held = @ + 1]

RECURSIVE Run(_, _)
Run(d, input) == IF d.res # "" THEN d ELSE Run(DStep(d, input), input)
Decode(input) == Run(DInit, input)

\* the honest encoding of a proof with k rounds, as a token stream
Honest(k) == [i \in 1 .. 14 |-> [st |-> "ok"]] \o << [st |-> "ok", val |-> k] >> \o [i \in 1 .. k |-> [st |-> "ok"]]
               \o << [st |-> "ok", val |-> k] >> \o [i \in 1 .. k |-> [st |-> "ok"]] \o << [st |-> "ok"], [st |-> "ok"] >>

\* the stream obtained by cutting the honest encoding after `c` bytes
RECURSIVE CutAt(_, _, _, _)
CutAt(toks, kinds, c, i) ==
  IF i > Len(toks) THEN << >>
  ELSE IF c <= 0 THEN << >>
  ELSE IF c < TokLen(kinds[i]) THEN << [st |-> "cut"] >>
  ELSE << toks[i] >> \o CutAt(toks, kinds, c - TokLen(kinds[i]), i + 1)
=============================================================================
