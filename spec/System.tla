------------------------------- MODULE System ------------------------------
(***************************************************************************)
(* ark-bulletproofs as a state machine.                                    *)
(*                                                                         *)
(* One run = one prover and one verifier object, each driven through its   *)
(* public API, with the proof travelling over a wire the adversary owns.   *)
(* Every action is one public call (or the part of prove/verify between    *)
(* two points at which user code runs); its parameters are the call's      *)
(* inputs together with the values the environment supplies (RNG scalars,  *)
(* challenge scalars).  Model-checking modules choose the parameters from  *)
(* bounded sets; trace-validation modules bind them to what was recorded   *)
(* from the real code and compare every output.                            *)
(*                                                                         *)
(* Roles: "P" prover, "V" verifier.                                        *)
(*   ph[role]: "none" -> "build" -> ("cb" ->) "done"                       *)
(***************************************************************************)
EXTENDS LC, TLC

VARIABLES
  env,     \* [P |-> [B, Bb, G, H], V |-> [B, Bb, G, H]]  generators each role was given (discrete logs)
  cs,      \* [P |-> prover builder state, V |-> verifier builder state]
  tr,      \* [P |-> transcript operations so far, V |-> ...]
  ph,      \* [P |-> phase, V |-> phase]
  mid,     \* [P |-> first-phase secrets/commitments, V |-> [n1 |-> ..]]
  wire,    \* the proof in transit (a proof record) or NoProof
  sent,    \* the proof exactly as the prover emitted it (history, for properties)
  res,     \* [P |-> result of prove, V |-> result of verify]; "" = not finished
  cberr,   \* [P |-> first error a second-phase callback returned, V |-> ...]
  degen,   \* TRUE once the run hit an event of negligible probability on real curves
  out      \* observable outputs of the last action (returned value, error, RNG scalars used,
           \* and what the reference prover would have emitted)

vars == << env, cs, tr, ph, mid, wire, sent, res, cberr, degen, out >>

NoOut == [ret |-> << >>, err |-> "", used |-> 0, ref |-> << >>]

NoProof == << >>
Roles == {"P", "V"}

Start(e) ==
  /\ env' = e
  /\ cs' = [P |-> PInit, V |-> VInit]
  /\ tr' = [P |-> << >>, V |-> << >>]
  /\ ph' = [P |-> "none", V |-> "none"]
  /\ mid' = [P |-> << >>, V |-> << >>]
  /\ wire' = NoProof /\ sent' = NoProof
  /\ res' = [P |-> "", V |-> ""]
  /\ cberr' = [P |-> "", V |-> ""]
  /\ degen' = FALSE
  /\ out' = NoOut

NoEnv == [B |-> 1, Bb |-> 1, G |-> << >>, H |-> << >>]
Init == /\ env = [P |-> NoEnv, V |-> NoEnv]
        /\ cs = [P |-> PInit, V |-> VInit]
        /\ tr = [P |-> << >>, V |-> << >>]
        /\ ph = [P |-> "none", V |-> "none"]
        /\ mid = [P |-> << >>, V |-> << >>]
        /\ wire = NoProof /\ sent = NoProof
        /\ res = [P |-> "", V |-> ""]
        /\ cberr = [P |-> "", V |-> ""]
        /\ degen = FALSE
        /\ out = NoOut

(* Prover::new / Verifier::new on a transcript that already holds the
   application's operations `pre` (Transcript::new label, app data). *)
New(role, pre) ==
  /\ ph[role] = "none"
  /\ ph' = [ph EXCEPT ![role] = "build"]
  /\ tr' = [tr EXCEPT ![role] = pre \o << DomSepR1CS >>]
  /\ UNCHANGED << env, cs, mid, wire, sent, res, cberr, degen, out >>

CallResult(role, c) == IF role = "P" THEN PCall(env.P, cs.P, c) ELSE VCall(env.V, cs.V, c)

CallAllowed(role, c) ==
  /\ ph[role] \in {"build", "cb"}
  /\ c.op \in {"commit", "defer"} => ph[role] = "build"      \* not offered by the randomized CS
  /\ c.op = "chal" => ph[role] = "cb"
  /\ cberr[role] = ""                                         \* a failed callback runs no further

(* one ConstraintSystem call *)
Call(role, c) ==
  /\ CallAllowed(role, c)
  /\ LET r == CallResult(role, c) IN
       /\ cs' = [cs EXCEPT ![role] = r.st]
       /\ tr' = [tr EXCEPT ![role] = @ \o r.ops]
       /\ cberr' = [cberr EXCEPT ![role] = IF ph[role] = "cb" THEN r.err ELSE ""]
       /\ out' = [ret |-> r.ret, err |-> r.err, used |-> 0, ref |-> << >>]
  /\ UNCHANGED << env, ph, mid, wire, sent, res, degen >>

(***************************************************************************)
(* Proving.  The specification separates what any prover does (absorb what *)
(* it emits, in the fixed order; emit a proof containing what it absorbed) *)
(* from what the reference prover emits (RefEm, out.ref): the parameters   *)
(* em / pf are the commitments / the proof the prover puts on the wire.    *)
(* An honest run takes em = RefEm(..) and pf = the reference proof.        *)
(***************************************************************************)
RefEm(m) == [AI1 |-> m.AI1, AO1 |-> m.AO1, S1 |-> m.S1]

(* prove, up to the point where the second-phase callbacks start *)
ProveStart(cap, d, em) ==
  /\ ph.P = "build" /\ cs.P.ndefer > 0
  /\ LET r == ProveP1(env.P, cap, cs.P, d) IN
       /\ r.res = ""
       /\ cs' = [cs EXCEPT !.P = r.st]
       /\ tr' = [tr EXCEPT !.P = @ \o P1Ops(cs.P, em)]
       /\ mid' = [mid EXCEPT !.P = [ref |-> r.mid, em |-> em]]
       /\ ph' = [ph EXCEPT !.P = "cb"]
       /\ out' = [ret |-> << >>, err |-> "", used |-> r.used, ref |-> RefEm(r.mid)]
  /\ UNCHANGED << env, wire, sent, res, cberr, degen >>

\* r: result of the reference computation; pn: padded size; em: what was absorbed in the first part
FinishProve(r, pre, pn, em, pf) ==
  /\ r.res = "ok" => /\ pf # NoProof
                     /\ pf.AI1 = em.AI1 /\ pf.AO1 = em.AO1 /\ pf.S1 = em.S1    \* sends what it absorbed
  /\ tr' = [tr EXCEPT !.P = @ \o pre \o (IF r.res = "ok" THEN P2Ops(pn, pf) ELSE r.ops)]
  /\ res' = [res EXCEPT !.P = r.res]
  /\ degen' = (degen \/ r.degenerate)
  /\ wire' = IF r.res = "ok" THEN pf ELSE NoProof
  /\ sent' = wire'
  /\ out' = [ret |-> << >>, err |-> "", used |-> r.used, ref |-> r.proof]
  /\ ph' = [ph EXCEPT !.P = "done"]

(* the callbacks returned an error: prove returns it *)
ProveAbort ==
  /\ ph.P = "cb" /\ cberr.P # ""
  /\ res' = [res EXCEPT !.P = cberr.P]
  /\ ph' = [ph EXCEPT !.P = "done"]
  /\ out' = NoOut
  /\ UNCHANGED << env, cs, tr, mid, wire, sent, cberr, degen >>

(* prove, after the callbacks *)
ProveFinish(cap, d, ch, pf) ==
  /\ ph.P = "cb" /\ cberr.P = ""
  /\ LET r == ProveP2(env.P, cap, cs.P, mid.P.ref, d, ch) IN      \* LET: evaluated once
       FinishProve(r, << >>, Pad2(PLen(cs.P)), mid.P.em, pf)
  /\ UNCHANGED << env, cs, mid, cberr >>

(* prove without callbacks (or failing before them): both parts in one step *)
ProveBoth(r1, r2, em, pf) ==
  IF r1.res # ""
  THEN /\ tr' = [tr EXCEPT !.P = @ \o r1.ops]
       /\ res' = [res EXCEPT !.P = r1.res]
       /\ ph' = [ph EXCEPT !.P = "done"]
       /\ out' = NoOut
       /\ UNCHANGED << env, cs, mid, wire, sent, cberr, degen >>
  ELSE /\ cs.P.ndefer = 0
       /\ IF r2.res = "InvalidGeneratorsLength"
          THEN /\ tr' = [tr EXCEPT !.P = @ \o P1Ops(cs.P, em)]      \* the first part was performed
               /\ res' = [res EXCEPT !.P = r2.res]
               /\ ph' = [ph EXCEPT !.P = "done"]
               /\ out' = [ret |-> << >>, err |-> "", used |-> r1.used, ref |-> << >>]
               /\ UNCHANGED << wire, sent, degen >>
          ELSE FinishProve([r2 EXCEPT !.used = r1.used + r2.used], P1Ops(cs.P, em), Pad2(PLen(cs.P)), em,
                           IF r2.res = "ok" THEN pf ELSE NoProof)
       /\ cs' = [cs EXCEPT !.P = r1.st]
       /\ mid' = [mid EXCEPT !.P = [ref |-> r1.mid, em |-> em]]
       /\ UNCHANGED << env, cberr >>

Prove(cap, d, ch, pf) ==
  /\ ph.P = "build"
  /\ LET r1 == ProveP1(env.P, cap, cs.P, d)
         r2 == IF r1.res = ""
               THEN ProveP2(env.P, cap, r1.st, r1.mid, IF Len(d) >= r1.used THEN Drop(d, r1.used) ELSE << >>, ch)
               ELSE << >>
         em == IF pf # NoProof
               THEN [AI1 |-> pf.AI1, AO1 |-> pf.AO1, S1 |-> pf.S1]
               ELSE IF r1.res = "" THEN RefEm(r1.mid) ELSE << >>
     IN ProveBoth(r1, r2, em, pf)

(* the adversary replaces whatever is on the wire *)
Adversary(pf) ==
  /\ wire' = pf
  /\ out' = NoOut
  /\ UNCHANGED << env, cs, tr, ph, mid, sent, res, cberr, degen >>

VerifyStart ==
  /\ ph.V = "build" /\ cs.V.ndefer > 0 /\ wire # NoProof
  /\ LET r == VerifyP1(cs.V, wire) IN
       /\ r.res = ""
       /\ cs' = [cs EXCEPT !.V = r.st]
       /\ tr' = [tr EXCEPT !.V = @ \o r.ops]
       /\ mid' = [mid EXCEPT !.V = [n1 |-> r.n1]]
       /\ ph' = [ph EXCEPT !.V = "cb"]
       /\ out' = NoOut
  /\ UNCHANGED << env, wire, sent, res, cberr, degen >>

VerifyAbort ==
  /\ ph.V = "cb" /\ cberr.V # ""
  /\ res' = [res EXCEPT !.V = cberr.V]
  /\ ph' = [ph EXCEPT !.V = "done"]
  /\ out' = NoOut
  /\ UNCHANGED << env, cs, tr, mid, wire, sent, cberr, degen >>

FinishVerify(r) ==
  /\ tr' = [tr EXCEPT !.V = @ \o r.ops]
  /\ res' = [res EXCEPT !.V = r.res]
  /\ degen' = (degen \/ r.degenerate)
  /\ out' = [NoOut EXCEPT !.ref = r.alg]
  /\ ph' = [ph EXCEPT !.V = "done"]

VerifyFinish(cap, ch) ==
  /\ ph.V = "cb" /\ cberr.V = ""
  /\ LET r == VerifyP2(env.V, cap, cs.V, mid.V.n1, wire, ch) IN FinishVerify(r)
  /\ UNCHANGED << env, cs, mid, wire, sent, cberr >>

VerifyBoth(r1, r2) ==
  IF r1.res # ""
  THEN /\ FinishVerify([res |-> r1.res, ops |-> r1.ops, degenerate |-> FALSE, alg |-> << >>])
       /\ UNCHANGED << env, cs, mid, wire, sent, cberr >>
  ELSE /\ cs.V.ndefer = 0
       /\ FinishVerify([r2 EXCEPT !.ops = r1.ops \o r2.ops])
       /\ cs' = [cs EXCEPT !.V = r1.st]
       /\ mid' = [mid EXCEPT !.V = [n1 |-> r1.n1]]
       /\ UNCHANGED << env, wire, sent, cberr >>

Verify(cap, ch) ==
  /\ ph.V = "build" /\ wire # NoProof
  /\ LET r1 == VerifyP1(cs.V, wire)
         r2 == IF r1.res = "" THEN VerifyP2(env.V, cap, r1.st, r1.n1, wire, ch) ELSE << >>
     IN VerifyBoth(r1, r2)

(***************************************************************************)
(* Properties of a run (state predicates over the variables above).        *)
(***************************************************************************)
\* C16: the two roles have handed out the same handles: same gate count, same pending gate
Mirror == (ph.P = ph.V /\ ph.P \in {"build", "cb"} /\ Len(tr.P) = Len(tr.V))
            => (PLen(cs.P) = VLen(cs.V) /\ cs.P.pending = cs.V.pending)

\* C16: no half gate survives the phase switch
PendingClosed == /\ ph.P = "cb" => cs.P.pending = NoPending \/ cs.P.pending >= mid.P.ref.n1
                 /\ ph.V = "cb" => cs.V.pending = NoPending \/ cs.V.pending >= mid.V.n1

\* C06: on an honest, unaltered run both roles performed the same transcript operations
IsRngOp(op) == op.o \in {"RB", "RK", "RF"}
Shared(ops) == SelectSeq(ops, LAMBDA op : op.f = 0 /\ ~IsRngOp(op))
RoleSync == (res.P = "ok" /\ res.V = "ok" /\ wire = sent /\ ~degen) => Shared(tr.P) = Shared(tr.V)

\* C01 (as a run property): same statement, satisfying assignment, unaltered proof => accepted
\* same context: as far as both roles got, they performed the same transcript operations (label, application data before and
\* during construction in both phases, commitments, separators, proof elements) - one list is a prefix of the other -
\* and they were given the same Pedersen bases
SameContext == LET a == Shared(tr.P)  b == Shared(tr.V)
                   k == IF Len(a) < Len(b) THEN Len(a) ELSE Len(b)
               IN /\ SubSeq(a, 1, k) = SubSeq(b, 1, k)
                  /\ env.P.B = env.V.B /\ env.P.Bb = env.V.Bb
SameStatement == /\ SameContext
                 /\ cs.P.cons = cs.V.cons
                 /\ PLen(cs.P) = VLen(cs.V)
                 /\ cs.V.V = [j \in 1 .. Len(cs.P.v) |-> Commit(env.P, cs.P.v[j], cs.P.vb[j])]
Completeness ==
  (res.P = "ok" /\ res.V # "" /\ wire = sent /\ ~degen /\ SameStatement /\ Satisfied(cs.P)
     /\ MandatoryNonIdentity(sent))        \* a blinded commitment equal to the identity: probability 1/P
    => res.V \in {"ok", "InvalidGeneratorsLength"}
=============================================================================
