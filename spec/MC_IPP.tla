-------------------------------- MODULE MC_IPP ------------------------------
(***************************************************************************)
(* C10 on the specification: for every length 2^k (k <= MaxK) and every    *)
(* pattern of vectors and factors, with sampled field values (P = 31723),  *)
(* or for every pair of vectors over F_7 (Exhaustive, n <= 2):             *)
(*   IppComplete   the created proof has k rounds and verifies             *)
(*   IppEqFold     the multiscalar verdict equals explicit folding, for    *)
(*                 the honest proof and for every altered one              *)
(*   IppRejects    wrong product, altered a/b, altered round are rejected  *)
(*   FirstRoundEq  the unrolled first round = generic round on scaled gens *)
(* Each instance pattern is also printed, to be run on the real code.      *)
(***************************************************************************)
EXTENDS IPP, Json, TLC

CONSTANTS MaxK, Exhaustive

VARIABLES inst, a, b, gf, hf, gv, hv, q, us, done
ivars == << inst, a, b, gf, hf, gv, hv, q, us, done >>

Patterns == {"dense", "sparse", "zeros", "ones", "unit"}
FPat == {"dense", "unit"}
NZ == 1 .. (P - 1)

GenVec(pat, n) ==
  [i \in 1 .. n |-> CASE pat = "zeros" -> 0
                      [] pat = "ones" -> 1
                      [] pat = "sparse" -> IF (i - 1) % 3 = 0 THEN RandomElement(F) ELSE 0
                      [] pat = "unit" -> IF i = n THEN 1 ELSE 0
                      [] OTHER -> RandomElement(F)]
GenNZ(pat, n) == [i \in 1 .. n |-> IF pat = "unit" THEN 1 ELSE RandomElement(NZ)]

SampledInit ==
  /\ inst \in [k : 0 .. MaxK, a : Patterns, b : Patterns, gf : FPat, hf : FPat]
  /\ LET n == Pow2(inst.k) IN
       /\ a = GenVec(inst.a, n) /\ b = GenVec(inst.b, n)
       /\ gf = GenNZ(inst.gf, n) /\ hf = GenNZ(inst.hf, n)
       /\ gv = GenNZ("dense", n) /\ hv = GenNZ("dense", n)
       /\ q = RandomElement(NZ)
       /\ us = GenNZ("dense", inst.k)
  /\ done = FALSE

ExhaustiveInit ==
  /\ inst \in [k : 0 .. 1, a : {"all"}, b : {"all"}, gf : {"fixed"}, hf : {"fixed"}]
  /\ LET n == Pow2(inst.k) IN
       /\ a \in [1 .. n -> F] /\ b \in [1 .. n -> F]
       /\ gf = [i \in 1 .. n |-> 1 + i] /\ hf = [i \in 1 .. n |-> 2 + i]
       /\ gv = [i \in 1 .. n |-> 1 + i] /\ hv = [i \in 1 .. n |-> 4 + i]
       /\ q = 3
       /\ us \in [1 .. inst.k -> NZ]
  /\ done = FALSE

IInit == IF Exhaustive THEN ExhaustiveInit ELSE SampledInit
INext == ~done /\ done' = TRUE /\ UNCHANGED << inst, a, b, gf, hf, gv, hv, q, us >>
ISpec == IInit /\ [][INext]_ivars

N == Pow2(inst.k)
Gp == Had(gf, gv)
Hp == Had(hf, hv)
Pf == Create(a, b, gv, hv, gf, hf, q, us)
Pt == Statement(a, b, Gp, Hp, q)
HasIdentityRound(pf) == \E j \in 1 .. Len(pf.L) : pf.L[j] = 0 \/ pf.R[j] = 0
Msm(pf, pt) == VerifyMsm(N, pf, us, gf, hf, pt, q, gv, hv)
Fold(pf, pt) == FoldResidual(pf, us, pt, q, Gp, Hp) = 0

IppComplete == /\ Len(Pf.L) = inst.k /\ Len(Pf.R) = inst.k
               /\ Msm(Pf, Pt)
IppEqFold ==
  LET alt == { Pf, [Pf EXCEPT !.a = Fadd(@, 1)], [Pf EXCEPT !.b = Fsub(@, 1)] }
                \cup (IF inst.k > 0 THEN { [Pf EXCEPT !.L[1] = Fadd(@, 1)], [Pf EXCEPT !.R[inst.k] = Fadd(@, 5)] } ELSE {})
  IN \A pf \in alt : \A pt \in {Pt, Fadd(Pt, q)} : Msm(pf, pt) <=> Fold(pf, pt)
\* with an honest proof, anything but the right statement point is rejected; an altered final scalar is rejected when its weight
\* is non-zero (it always is: s_i and the folded generators are non-zero multiples)
IppRejects ==
  /\ ~Msm(Pf, Fadd(Pt, q))
  /\ ~Fold([Pf EXCEPT !.a = Fadd(@, 1)], Pt) \/ Fadd(FoldGens(Gp, Hp, us, 1).G, Fmul(Pf.b, q)) = 0 \* a's weight is G_fold + b*Q
FirstRoundEq ==
  inst.k > 0 => FirstRound(a, b, gv, hv, gf, hf, q, us[1]) = Round(a, b, Gp, Hp, q, us[1])
ShapeGuard ==
  /\ ShapeOk(N, inst.k, inst.k)
  /\ ~ShapeOk(2 * N, inst.k, inst.k) /\ (inst.k > 0 => ~ShapeOk(N \div 2, inst.k, inst.k))
  /\ ~ShapeOk(N, inst.k, inst.k + 1)

IInv == done => (IppComplete /\ IppEqFold /\ IppRejects /\ FirstRoundEq /\ ShapeGuard)

Emit == (done /\ ~Exhaustive) => PrintT(<< "BEHAVIOUR", ToJson(inst) >>)
=============================================================================
