SPECIFICATION BSSpec
CONSTANTS
  P = 31723
  MaxMembers = 2
  SharedWeight = FALSE
INVARIANT BatchSysInv
CHECK_DEADLOCK FALSE
