SPECIFICATION TraceSpec
CONSTANT P = 79
POSTCONDITION TraceAccepted
INVARIANT TraceInv
CHECK_DEADLOCK FALSE
