SPECIFICATION TraceSpec
CONSTANT P = 31723
POSTCONDITION TraceAccepted
INVARIANT IdealIntegrity
CHECK_DEADLOCK FALSE
