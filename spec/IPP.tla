-------------------------------- MODULE IPP --------------------------------
(***************************************************************************)
(* The inner-product argument of inner_product_proof.rs.                   *)
(*   Create              InnerProductProof::create   (lines 34-231)        *)
(*   VerificationScalars ::verification_scalars      (lines 244-314)       *)
(*   Verify              ::verify                    (lines 320-380)       *)
(*   FoldVerify          the textbook check with generators folded round   *)
(*                       by round (the oracle of C03(c) / C10)             *)
(* Group elements are discrete logs (see Field).                           *)
(***************************************************************************)
EXTENDS Field, Merlin

Half1(s) == SubSeq(s, 1, Len(s) \div 2)
Half2(s) == SubSeq(s, Len(s) \div 2 + 1, Len(s))

(* The generic round (the `while n != 1` loop body) on vectors a, b and
   generator vectors Gv, Hv, with challenge u. *)
Round(a, b, Gv, Hv, Q, u) ==
  LET n  == Len(a) \div 2
      aL == Half1(a)   aR == Half2(a)
      bL == Half1(b)   bR == Half2(b)
      GL == Half1(Gv)  GR == Half2(Gv)
      HL == Half1(Hv)  HR == Half2(Hv)
      ui == Finv(u)
  IN [L |-> Fadd(Fadd(IP(aL, GR), IP(bR, HL)), Fmul(IP(aL, bR), Q)),
      R |-> Fadd(Fadd(IP(aR, GL), IP(bL, HR)), Fmul(IP(aR, bL), Q)),
      a |-> [i \in 1 .. n |-> Fadd(Fmul(aL[i], u), Fmul(ui, aR[i]))],
      b |-> [i \in 1 .. n |-> Fadd(Fmul(bL[i], ui), Fmul(u, bR[i]))],
      G |-> [i \in 1 .. n |-> Fadd(Fmul(ui, GL[i]), Fmul(u, GR[i]))],
      H |-> [i \in 1 .. n |-> Fadd(Fmul(u, HL[i]), Fmul(ui, HR[i]))]]

(* The unrolled first round (the `if n != 1` block): the factor vectors are
   multiplied into the scalars instead of the generators. *)
FirstRound(a, b, Gv, Hv, Gf, Hf, Q, u) ==
  LET n  == Len(a) \div 2
      aL == Half1(a)   aR == Half2(a)
      bL == Half1(b)   bR == Half2(b)
      GL == Half1(Gv)  GR == Half2(Gv)
      HL == Half1(Hv)  HR == Half2(Hv)
      ui == Finv(u)
  IN [L |-> Fadd(Fadd(IP([i \in 1 .. n |-> Fmul(aL[i], Gf[n + i])], GR),
                      IP([i \in 1 .. n |-> Fmul(bR[i], Hf[i])], HL)),
                 Fmul(IP(aL, bR), Q)),
      R |-> Fadd(Fadd(IP([i \in 1 .. n |-> Fmul(aR[i], Gf[i])], GL),
                      IP([i \in 1 .. n |-> Fmul(bL[i], Hf[n + i])], HR)),
                 Fmul(IP(aR, bL), Q)),
      a |-> [i \in 1 .. n |-> Fadd(Fmul(aL[i], u), Fmul(ui, aR[i]))],
      b |-> [i \in 1 .. n |-> Fadd(Fmul(bL[i], ui), Fmul(u, bR[i]))],
      G |-> [i \in 1 .. n |-> Fadd(Fmul(Fmul(ui, Gf[i]), GL[i]), Fmul(Fmul(u, Gf[n + i]), GR[i]))],
      H |-> [i \in 1 .. n |-> Fadd(Fmul(Fmul(u, Hf[i]), HL[i]), Fmul(Fmul(ui, Hf[n + i]), HR[i]))]]

RECURSIVE Rounds(_, _, _, _, _, _, _, _)
Rounds(a, b, Gv, Hv, Q, us, j, acc) ==
  IF Len(a) = 1
  THEN [L |-> acc.L, R |-> acc.R, a |-> a[1], b |-> b[1], degenerate |-> acc.degenerate, used |-> j - 1]
  ELSE IF j > Len(us) \/ us[j] = 0
  THEN \* u.inverse().unwrap() panics on a zero challenge: a degenerate run
       [L |-> acc.L, R |-> acc.R, a |-> 0, b |-> 0, degenerate |-> TRUE, used |-> j - 1]
  ELSE LET r == Round(a, b, Gv, Hv, Q, us[j])
       IN Rounds(r.a, r.b, r.G, r.H, Q, us, j + 1,
                 [L |-> Append(acc.L, r.L), R |-> Append(acc.R, r.R), degenerate |-> FALSE])

(* InnerProductProof::create.  us = the round challenges in order. *)
Create(a, b, Gv, Hv, Gf, Hf, Q, us) ==
  IF Len(a) = 1
  THEN [L |-> << >>, R |-> << >>, a |-> a[1], b |-> b[1], degenerate |-> FALSE, used |-> 0]
  ELSE IF Len(us) = 0 \/ us[1] = 0
  THEN [L |-> << >>, R |-> << >>, a |-> 0, b |-> 0, degenerate |-> TRUE, used |-> 0]
  ELSE LET r == FirstRound(a, b, Gv, Hv, Gf, Hf, Q, us[1])
       IN Rounds(r.a, r.b, r.G, r.H, Q, us, 2,
                 [L |-> << r.L >>, R |-> << r.R >>, degenerate |-> FALSE])

\* transcript operations of create / of the verifier's replay, for k rounds
RECURSIVE RoundOps(_, _, _)
RoundOps(Ls, Rs, j) ==
  IF j > Len(Ls) THEN << >>
  ELSE << OpA("L", "pt", Ls[j]), OpA("R", "pt", Rs[j]), OpC("u") >> \o RoundOps(Ls, Rs, j + 1)
CreateOps(n, ipp) == DomSepIPP(n) \o RoundOps(ipp.L, ipp.R, 1)

(***************************************************************************)
(* verification_scalars.  Shape guard of the specification:                *)
(*     |L| < 32,  n = 2^|L|,  |R| = |L|                                     *)
(* (the last conjunct is the C08 repair; without it the code indexes out   *)
(* of bounds or hands mismatched lengths to the multiscalar product).      *)
(* us: challenges of the rounds, in creation order.  batch_inversion maps  *)
(* 0 to 0, and allinv multiplies the non-zero inverses only.               *)
(***************************************************************************)
\* (TLC integers are 32-bit: 2^31 is out of range, and no modelled n reaches it)
ShapeOk(n, nL, nR) == nL < 32 /\ (IF nL <= 30 THEN n = Pow2(nL) ELSE FALSE) /\ nR = nL

InvOrZero(x) == IF x = 0 THEN 0 ELSE Finv(x)

RECURSIVE SVec(_, _, _, _)
SVec(n, lgn, usq, acc) ==
  IF Len(acc) = n THEN acc
  ELSE LET i == Len(acc)            \* 0-based index of the element being pushed
           lgi == Lg(i)
           k == Pow2(lgi)
       IN SVec(n, lgn, usq, Append(acc, Fmul(acc[i - k + 1], usq[lgn - lgi])))

VerificationScalars(n, us) ==
  LET lgn == Len(us)
      inv == [j \in 1 .. lgn |-> InvOrZero(us[j])]
      allinv == ProdSeq(SelectSeq(inv, LAMBDA x : x # 0))
      usq == [j \in 1 .. lgn |-> Fmul(us[j], us[j])]
      uinvsq == [j \in 1 .. lgn |-> Fmul(inv[j], inv[j])]
  IN [usq |-> usq, uinvsq |-> uinvsq, s |-> SVec(n, lgn, usq, << allinv >>)]

Rev(s) == [i \in 1 .. Len(s) |-> s[Len(s) + 1 - i]]

(* InnerProductProof::verify: the single multiscalar check *)
VerifyMsm(n, ipp, us, Gf, Hf, Pt, Q, Gv, Hv) ==
  LET vs == VerificationScalars(n, us)
      sr == Rev(vs.s)
      expect == Fsub(
         Fadd(Fmul(Fmul(ipp.a, ipp.b), Q),
              Fadd(IP([i \in 1 .. n |-> Fmul(Fmul(ipp.a, vs.s[i]), Gf[i])], Gv),
                   IP([i \in 1 .. n |-> Fmul(Fmul(ipp.b, sr[i]), Hf[i])], Hv))),
         Fadd(IP(vs.usq, ipp.L), IP(vs.uinvsq, ipp.R)))
  IN expect = Pt

(* The textbook verifier: fold the (scaled) generators round by round. *)
RECURSIVE FoldGens(_, _, _, _)
FoldGens(Gv, Hv, us, j) ==
  IF Len(Gv) = 1 THEN [G |-> Gv[1], H |-> Hv[1]]
  ELSE LET u == us[j]  ui == Finv(u)  n == Len(Gv) \div 2
           GL == Half1(Gv) GR == Half2(Gv) HL == Half1(Hv) HR == Half2(Hv)
       IN FoldGens([i \in 1 .. n |-> Fadd(Fmul(ui, GL[i]), Fmul(u, GR[i]))],
                   [i \in 1 .. n |-> Fadd(Fmul(u, HL[i]), Fmul(ui, HR[i]))], us, j + 1)

\* residual of the folded relation; the opening is correct iff this is 0
FoldResidual(ipp, us, Pt, Q, Gp, Hp) ==
  LET f == FoldGens(Gp, Hp, us, 1)
      lhs == Fadd(Pt, Fadd(IP([j \in 1 .. Len(us) |-> Fmul(us[j], us[j])], ipp.L),
                           IP([j \in 1 .. Len(us) |-> Fmul(Finv(us[j]), Finv(us[j]))], ipp.R)))
      rhs == Fadd(Fadd(Fmul(ipp.a, f.G), Fmul(ipp.b, f.H)), Fmul(Fmul(ipp.a, ipp.b), Q))
  IN Fsub(lhs, rhs)

\* the statement an opening (a, b) proves: P = <a,G'> + <b,H'> + <a,b> Q
Statement(a, b, Gp, Hp, Q) == Fadd(Fadd(IP(a, Gp), IP(b, Hp)), Fmul(IP(a, b), Q))
=============================================================================
