SPECIFICATION TraceSpec
CONSTANT P = 79
POSTCONDITION TraceAccepted
INVARIANT IdealSoundness
CHECK_DEADLOCK FALSE
