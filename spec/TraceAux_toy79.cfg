SPECIFICATION TraceSpec
CONSTANT P = 79
POSTCONDITION TraceAccepted
CHECK_DEADLOCK FALSE
