SPECIFICATION TraceSpec
CONSTANT P = 79
POSTCONDITION TraceAccepted
INVARIANT IdealCompleteness
INVARIANT IdealSoundness
CHECK_DEADLOCK FALSE
