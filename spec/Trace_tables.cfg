SPECIFICATION TraceSpec
CONSTANT P = 31723
POSTCONDITION TraceAccepted
CHECK_DEADLOCK FALSE
