------------------------------- MODULE Library ------------------------------
(***************************************************************************)
(* The library as one state machine: System (builder of both roles,        *)
(* prover, verifier, the proof object in transit) composed with            *)
(*                                                                         *)
(*   - the generator tables each role hands to prove / verify              *)
(*     (generators.rs:150-243): a table is created with a party count and  *)
(*     a capacity, grows by increase_capacity, survives clone and a        *)
(*     serialisation round trip, and is read through aggregated views;     *)
(*   - the byte encoding of the proof (proof.rs:74-90): to_bytes turns     *)
(*     the proof object into a token stream, the adversary owns the bytes, *)
(*     from_bytes runs the decoder state machine of module Codec.          *)
(*                                                                         *)
(* Generators.  The i-th G / H generator of party j is chain[kind, j, i],  *)
(* ONE function for the whole life of the process, whatever tables exist   *)
(* and however they came about.  A table is nothing but a window           *)
(* (parties, cap) onto that function - that is history independence (C12). *)
(* The specification does not know the values (they are SHA3/ChaCha output *)
(* hashed to the curve); it learns them from the first observation and     *)
(* holds every later observation, from any table of any role at any time,  *)
(* against what it learnt.                                                 *)
(*                                                                         *)
(* The capacity that decides InvalidGeneratorsLength in prove / verify is  *)
(* the table's `cap` (C17); the generators the protocol uses are party 0's *)
(* window of the chain (GensBound).                                        *)
(***************************************************************************)
EXTENDS System

VARIABLES gens,     \* [P |-> table or NoTable, V |-> ...]; table = [parties, cap]
          chain,    \* what is known of the generator function: <<kind, party, index>> (zero-based) |-> group element
          enc       \* the proof as bytes in transit: a token stream (see Codec), << >> = nothing encoded yet

lvars == << vars, gens, chain, enc >>

NoTable == << >>
Key(kind, j, i) == << kind, j, i >>
Kinds2 == {"G", "H"}

LibInit == gens = [P |-> NoTable, V |-> NoTable] /\ chain = << >> /\ enc = << >>

(***************************************************************************)
(* Generator tables                                                        *)
(***************************************************************************)
\* what a table holds, as far as the chain is known: one row per party, `cap` entries per row
Window(t, kind) == [j \in 1 .. t.parties |-> [i \in 1 .. t.cap |-> chain[Key(kind, j - 1, i - 1)]]]

\* content: [G |-> rows, H |-> rows] as stored by the real table
HasShape(t, content) ==
  \A kind \in Kinds2 : /\ Len(content[kind]) = t.parties
                       /\ \A j \in 1 .. t.parties : Len(content[kind][j]) = t.cap
KeysOf(t) == {Key(kind, j, i) : kind \in Kinds2, j \in 0 .. t.parties - 1, i \in 0 .. t.cap - 1}
Agrees(t, content) ==
  \A k \in KeysOf(t) : k \in DOMAIN chain => chain[k] = content[k[1]][k[2] + 1][k[3] + 1]
Learnt(t, content) ==
  [k \in DOMAIN chain \cup KeysOf(t) |-> IF k \in DOMAIN chain THEN chain[k] ELSE content[k[1]][k[2] + 1][k[3] + 1]]

\* the table `t` holds exactly `content`, and `content` is the one generator function
Holds(t, content) == HasShape(t, content) /\ Agrees(t, content)

\* BulletproofGens::new(cap, parties)
GensNew(role, np, c, content) ==
  /\ LET t == [parties |-> np, cap |-> c] IN
       /\ Holds(t, content)
       /\ gens' = [gens EXCEPT ![role] = t]
       /\ chain' = Learnt(t, content)
  /\ UNCHANGED << vars, enc >>

\* increase_capacity(c): no-op unless c exceeds the capacity
GensIncrease(role, c, content) ==
  /\ gens[role] # NoTable
  /\ LET t == IF c > gens[role].cap THEN [gens[role] EXCEPT !.cap = c] ELSE gens[role] IN
       /\ Holds(t, content)
       /\ gens' = [gens EXCEPT ![role] = t]
       /\ chain' = Learnt(t, content)
  /\ UNCHANGED << vars, enc >>

\* clone, or serialise + deserialise: the same window
GensCopy(role, content) ==
  /\ gens[role] # NoTable
  /\ Holds(gens[role], content)
  /\ chain' = Learnt(gens[role], content)
  /\ UNCHANGED << vars, gens, enc >>

\* G(n, m) / H(n, m): the first n generators of the first m parties, party-major  (n <= cap, m <= parties)
ViewOf(kind, n, m) == [k \in 1 .. n * m |-> chain[Key(kind, (k - 1) \div n, (k - 1) % n)]]
GensView(role, kind, n, m, ret) ==
  /\ gens[role] # NoTable /\ n <= gens[role].cap /\ m <= gens[role].parties
  /\ ret = ViewOf(kind, n, m)
  /\ UNCHANGED << vars, gens, chain, enc >>

\* the generators a role's prove / verify works with are party 0's window of its table, and its capacity is the table's
GensBound(role, cap) ==
  gens[role] # NoTable =>
    /\ gens[role].parties >= 1
    /\ cap = gens[role].cap
    /\ env[role].G = Window(gens[role], "G")[1]
    /\ env[role].H = Window(gens[role], "H")[1]

(***************************************************************************)
(* The encoding                                                            *)
(***************************************************************************)
PtTok(x) == [st |-> "ok", k |-> "pt", v |-> x]
ScTok(x) == [st |-> "ok", k |-> "sc", v |-> x]
LenTok(n) == [st |-> "ok", k |-> "len", val |-> n]

\* field order of the encoding (R1CSProof, then InnerProductProof: L list, R list, a, b)
Tokens(pf) ==
  << PtTok(pf.AI1), PtTok(pf.AO1), PtTok(pf.S1), PtTok(pf.AI2), PtTok(pf.AO2), PtTok(pf.S2),
     PtTok(pf.T1), PtTok(pf.T3), PtTok(pf.T4), PtTok(pf.T5), PtTok(pf.T6),
     ScTok(pf.tx), ScTok(pf.txb), ScTok(pf.eb), LenTok(Len(pf.L)) >>
  \o [i \in 1 .. Len(pf.L) |-> PtTok(pf.L[i])] \o << LenTok(Len(pf.R)) >>
  \o [i \in 1 .. Len(pf.R) |-> PtTok(pf.R[i])] \o << ScTok(pf.a), ScTok(pf.b) >>

\* the proof object a successfully decoded stream stands for
ProofOf(toks) ==
  LET kL == toks[15].val
      kR == toks[16 + kL].val
  IN [AI1 |-> toks[1].v, AO1 |-> toks[2].v, S1 |-> toks[3].v, AI2 |-> toks[4].v, AO2 |-> toks[5].v, S2 |-> toks[6].v,
      T1 |-> toks[7].v, T3 |-> toks[8].v, T4 |-> toks[9].v, T5 |-> toks[10].v, T6 |-> toks[11].v,
      tx |-> toks[12].v, txb |-> toks[13].v, eb |-> toks[14].v,
      L |-> [i \in 1 .. kL |-> toks[15 + i].v], R |-> [i \in 1 .. kR |-> toks[16 + kL + i].v],
      a |-> toks[17 + kL + kR].v, b |-> toks[18 + kL + kR].v]

\* R1CSProof::to_bytes on what the prover returned
Encode ==
  /\ wire # NoProof
  /\ enc' = Tokens(wire)
  /\ UNCHANGED << vars, gens, chain >>

\* the adversary replaces the bytes
TamperBytes(toks) ==
  /\ enc' = toks
  /\ UNCHANGED << vars, gens, chain >>

\* R1CSProof::from_bytes: the decoder state machine of Codec over whatever bytes arrived; trailing input is ignored
Cdc == INSTANCE Codec WITH PtLen <- 0, ScLen <- 0        \* token sizes only matter for Size / CutAt, not for Decode
EncSize(kL, kR, ptlen, sclen) == 11 * ptlen + 5 * sclen + 16 + (kL + kR) * ptlen
DecodeResult(toks) == Cdc!Decode(toks).res
DecodeBytes ==
  /\ enc # << >>
  /\ LET r == DecodeResult(enc) IN
       /\ wire' = IF r = "ok" THEN ProofOf(enc) ELSE NoProof
       /\ out' = [NoOut EXCEPT !.err = IF r = "ok" THEN "" ELSE r]
  /\ UNCHANGED << env, cs, tr, ph, mid, sent, res, cberr, degen, gens, chain, enc >>

(***************************************************************************)
(* Properties of the composition                                           *)
(***************************************************************************)
\* C11: decoding what the encoder produced gives back the proof object
RoundTrip == (enc # << >> /\ sent # NoProof /\ enc = Tokens(sent)) => (DecodeResult(enc) = "ok" /\ ProofOf(enc) = sent)
\* C12: every table is a window of the one chain (nothing else is representable in this state space), so what remains to be
\* stated is that the chain only ever grows
ChainGrows == [][\A k \in DOMAIN chain : k \in DOMAIN chain' /\ chain'[k] = chain[k]]_lvars
=============================================================================
