SPECIFICATION TraceSpec
CONSTANT P = 7
POSTCONDITION TraceAccepted
INVARIANT StatementBinding
CHECK_DEADLOCK FALSE
