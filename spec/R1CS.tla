-------------------------------- MODULE R1CS -------------------------------
(***************************************************************************)
(* The R1CS proof system of src/r1cs: constraint-system bookkeeping of     *)
(* both roles, the proving protocol and the verifying protocol, over the   *)
(* exact small-field model of Field.tla.                                   *)
(*                                                                         *)
(*   PCall / VCall   one public ConstraintSystem call of a role            *)
(*                   (prover.rs:96-208,327-341 / verifier.rs:69-164,279-287)*)
(*   ProveP1         prove_and_return_transcript up to and including the   *)
(*                   phase separator (prover.rs:466-431)                   *)
(*   ProveP2         the rest of proving (prover.rs:569-831)               *)
(*   VerifyP1/P2     verification_scalars + verify (verifier.rs:394-600)   *)
(*   RefRelations    the unbatched textbook relations (oracle of C03)      *)
(*                                                                         *)
(* env = [B, Bb, G, H]: Pedersen bases and party-0 generator vectors, as   *)
(* discrete logs.  Linear combinations are sequences of terms              *)
(* <<kind, index, coeff>>, kind \in {"L","R","O","V","1"}, index 0-based   *)
(* as in the code's Variable enum.                                         *)
(***************************************************************************)
EXTENDS IPP

NoPending == -1

Commit(env, v, r) == Fadd(Fmul(v, env.B), Fmul(r, env.Bb))

(***************************************************************************)
(* Builder state                                                           *)
(***************************************************************************)
PInit == [aL |-> << >>, aR |-> << >>, aO |-> << >>, v |-> << >>, vb |-> << >>,
          cons |-> << >>, pending |-> NoPending, ndefer |-> 0]
VInit == [nv |-> 0, V |-> << >>, cons |-> << >>, pending |-> NoPending, ndefer |-> 0]

PLen(st) == Len(st.aL)
VLen(st) == st.nv

TermVal(st, t) ==
  CASE t[1] = "L" -> st.aL[t[2] + 1]
    [] t[1] = "R" -> st.aR[t[2] + 1]
    [] t[1] = "O" -> st.aO[t[2] + 1]
    [] t[1] = "V" -> st.v[t[2] + 1]
    [] t[1] = "1" -> 1
    [] OTHER -> 0

\* Prover::eval
PEval(st, lc) == SumSeq([k \in 1 .. Len(lc) |-> Fmul(lc[k][3], TermVal(st, lc[k]))])

Triple(i) == << <<"L", i>>, <<"R", i>>, <<"O", i>> >>
MinusOne == P - 1

(* One ConstraintSystem call on the prover.  c.op names the call, the other
   fields are its arguments.  Result: new state, returned value, transcript
   operations performed, error ("" = none). *)
PCall(env, st, c) ==
  CASE c.op = "commit" ->
         [st |-> [st EXCEPT !.v = Append(@, c.v), !.vb = Append(@, c.vb)],
          ret |-> << Commit(env, c.v, c.vb), <<"V", Len(st.v)>> >>,
          \* the prover absorbs the commitment it hands out (c.Vobs when the caller supplies what was observed; that this IS Commit(v, vb)
          \* is C13's statement and is compared through `ret`)
          ops |-> << OpA("V", "pt", IF "Vobs" \in DOMAIN c THEN c.Vobs ELSE Commit(env, c.v, c.vb)) >>, err |-> ""]
    [] c.op = "alloc" ->
         IF st.pending = NoPending
         THEN [st |-> [st EXCEPT !.aL = Append(@, c.a), !.aR = Append(@, 0), !.aO = Append(@, 0),
                                 !.pending = Len(st.aL)],
               ret |-> <<"L", Len(st.aL)>>, ops |-> << >>, err |-> ""]
         ELSE LET i == st.pending IN
              [st |-> [st EXCEPT !.aR[i + 1] = c.a, !.aO[i + 1] = Fmul(st.aL[i + 1], c.a),
                                 !.pending = NoPending],
               ret |-> <<"R", i>>, ops |-> << >>, err |-> ""]
    [] c.op \in {"alloc_none", "allocmul_none"} ->
         [st |-> st, ret |-> << >>, ops |-> << >>, err |-> "MissingAssignment"]
    [] c.op = "allocmul" ->
         [st |-> [st EXCEPT !.aL = Append(@, c.l), !.aR = Append(@, c.r), !.aO = Append(@, Fmul(c.l, c.r))],
          ret |-> Triple(Len(st.aL)), ops |-> << >>, err |-> ""]
    [] c.op = "mul" ->
         LET l == PEval(st, c.l)  r == PEval(st, c.r)  i == Len(st.aL) IN
         [st |-> [st EXCEPT !.aL = Append(@, l), !.aR = Append(@, r), !.aO = Append(@, Fmul(l, r)),
                            !.cons = @ \o << c.l \o << <<"L", i, MinusOne>> >>,
                                             c.r \o << <<"R", i, MinusOne>> >> >>],
          ret |-> Triple(i), ops |-> << >>, err |-> ""]
    [] c.op = "con" ->
         [st |-> [st EXCEPT !.cons = Append(@, c.lc)], ret |-> << >>, ops |-> << >>, err |-> ""]
    [] c.op = "defer" ->
         [st |-> [st EXCEPT !.ndefer = @ + 1], ret |-> << >>, ops |-> << >>, err |-> ""]
    [] c.op = "append" ->
         [st |-> st, ret |-> << >>, ops |-> << OpA(c.label, "raw", c.data) >>, err |-> ""]
    [] c.op = "chal" ->       \* RandomizedConstraintSystem::challenge_scalar (second phase only)
         [st |-> st, ret |-> << >>, ops |-> << OpC(c.label) >>, err |-> ""]
    [] c.op = "fail" ->       \* the user's closure returns an error of its own
         [st |-> st, ret |-> << >>, ops |-> << >>, err |-> "GadgetError"]
    [] c.op = "len" ->
         [st |-> st, ret |-> Len(st.aL), ops |-> << >>, err |-> ""]
    [] c.op = "setgate" ->    \* verification hook H1: overwrite one gate's assignment
         [st |-> [st EXCEPT !.aL[c.i + 1] = c.l, !.aR[c.i + 1] = c.r, !.aO[c.i + 1] = c.o],
          ret |-> << >>, ops |-> << >>, err |-> ""]

(* The same call on the verifier: no assignments, a gate counter instead. *)
VCall(env, st, c) ==
  CASE c.op = "commit" ->
         [st |-> [st EXCEPT !.V = Append(@, c.V)], ret |-> <<"V", Len(st.V)>>,
          ops |-> << OpA("V", "pt", c.V) >>, err |-> ""]
    [] c.op \in {"alloc", "alloc_none"} ->
         IF st.pending = NoPending
         THEN [st |-> [st EXCEPT !.nv = @ + 1, !.pending = st.nv],
               ret |-> <<"L", st.nv>>, ops |-> << >>, err |-> ""]
         ELSE [st |-> [st EXCEPT !.pending = NoPending],
               ret |-> <<"R", st.pending>>, ops |-> << >>, err |-> ""]
    [] c.op \in {"allocmul", "allocmul_none"} ->
         [st |-> [st EXCEPT !.nv = @ + 1], ret |-> Triple(st.nv), ops |-> << >>, err |-> ""]
    [] c.op = "mul" ->
         LET i == st.nv IN
         [st |-> [st EXCEPT !.nv = @ + 1,
                            !.cons = @ \o << c.l \o << <<"L", i, MinusOne>> >>,
                                             c.r \o << <<"R", i, MinusOne>> >> >>],
          ret |-> Triple(i), ops |-> << >>, err |-> ""]
    [] c.op = "con" ->
         [st |-> [st EXCEPT !.cons = Append(@, c.lc)], ret |-> << >>, ops |-> << >>, err |-> ""]
    [] c.op = "defer" ->
         [st |-> [st EXCEPT !.ndefer = @ + 1], ret |-> << >>, ops |-> << >>, err |-> ""]
    [] c.op = "append" ->
         [st |-> st, ret |-> << >>, ops |-> << OpA(c.label, "raw", c.data) >>, err |-> ""]
    [] c.op = "chal" ->
         [st |-> st, ret |-> << >>, ops |-> << OpC(c.label) >>, err |-> ""]
    [] c.op = "fail" ->
         [st |-> st, ret |-> << >>, ops |-> << >>, err |-> "GadgetError"]
    [] c.op = "len" ->
         [st |-> st, ret |-> st.nv, ops |-> << >>, err |-> ""]
    [] c.op = "setgate" ->    \* prover-only hook; nothing to do on the verifier
         [st |-> st, ret |-> << >>, ops |-> << >>, err |-> ""]

(***************************************************************************)
(* flattened_constraints (prover.rs:354-397, verifier.rs:304-349):         *)
(* constraint number q (1-based) is weighted by z^q.                       *)
(***************************************************************************)
TermSum(lc, kind, idx) ==
  SumSeq([k \in 1 .. Len(lc) |-> IF lc[k][1] = kind /\ lc[k][2] = idx THEN lc[k][3] ELSE 0])

Weight(cons, zp, kind, idx) ==
  SumSeq([q \in 1 .. Len(cons) |-> Fmul(zp[q], TermSum(cons[q], kind, idx))])

Flatten(cons, n, m, z) ==
  LET zp == [q \in 1 .. Len(cons) |-> Fpow(z, q)]
  IN [wL |-> [i \in 1 .. n |-> Weight(cons, zp, "L", i - 1)],
      wR |-> [i \in 1 .. n |-> Weight(cons, zp, "R", i - 1)],
      wO |-> [i \in 1 .. n |-> Weight(cons, zp, "O", i - 1)],
      wV |-> [j \in 1 .. m |-> Fneg(Weight(cons, zp, "V", j - 1))],
      wc |-> Fneg(Weight(cons, zp, "1", 0))]

\* Does the assignment satisfy every constraint and gate?  (the statement's meaning)
ConstraintHolds(st, lc) == PEval(st, lc) = 0
GateHolds(st, i) == st.aO[i] = Fmul(st.aL[i], st.aR[i])
Satisfied(st) == /\ \A q \in 1 .. Len(st.cons) : ConstraintHolds(st, st.cons[q])
                 /\ \A i \in 1 .. Len(st.aL) : GateHolds(st, i)

(***************************************************************************)
(* Proving, first part: "m", RNG construction, first-phase commitments,    *)
(* phase separator.  d = the scalars the transcript RNG yields, in order.  *)
(***************************************************************************)
At(s, k, dflt) == IF k >= 1 /\ k <= Len(s) THEN s[k] ELSE dflt

\* create_randomized_constraints (prover.rs:418-441, verifier.rs:353-376): the effect of the phase
\* switch on the bookkeeping of either role - a half-assigned gate is closed, never carried over
SwitchSt(st) == [st EXCEPT !.pending = NoPending]

(* C17: the capacity thresholds.  The prover checks cap >= n1 before the first-phase commitments and
   cap >= Pad2(n) after the callbacks; the verifier checks cap >= Pad2(n) after the callbacks. *)
ProverCapError1(cap, n1) == cap < n1
CapError2(cap, n) == cap < Pad2(n)

\* transcript operations of the first part, given the commitments the prover emits
P1RngOps(st) ==
  << OpA("m", "u64", Len(st.v)), OpRB >> \o [j \in 1 .. Len(st.v) |-> OpRK("v_blinding", st.vb[j])] \o << OpRF >>
P1Ops(st, em) ==
  P1RngOps(st) \o << OpA("A_I1", "pt", em.AI1), OpA("A_O1", "pt", em.AO1), OpA("S1", "pt", em.S1),
                     IF st.ndefer = 0 THEN DomSep1Phase ELSE DomSep2Phase >>

ProveP1(env, cap, st, d) ==
  LET n1 == Len(st.aL)
      i1 == At(d, 1, 0)  o1 == At(d, 2, 0)  s1 == At(d, 3, 0)
      sL1 == [i \in 1 .. n1 |-> At(d, 3 + i, 0)]
      sR1 == [i \in 1 .. n1 |-> At(d, 3 + n1 + i, 0)]
      G1 == Take(env.G, n1)  H1 == Take(env.H, n1)
      AI1 == Fadd(Fmul(i1, env.Bb), Fadd(IP(st.aL, G1), IP(st.aR, H1)))
      AO1 == Fadd(Fmul(o1, env.Bb), IP(st.aO, G1))
      S1 == Fadd(Fmul(s1, env.Bb), Fadd(IP(sL1, G1), IP(sR1, H1)))
  IN IF ProverCapError1(cap, n1)
     THEN [res |-> "InvalidGeneratorsLength", ops |-> P1RngOps(st), used |-> 0, st |-> st, mid |-> << >>]
     ELSE [res |-> "", ops |-> << >>,
           used |-> 3 + 2 * n1,
           st |-> SwitchSt(st),
           \* the reference prover's first-phase secrets and commitments
           mid |-> [n1 |-> n1, i1 |-> i1, o1 |-> o1, s1 |-> s1, sL1 |-> sL1, sR1 |-> sR1,
                    AI1 |-> AI1, AO1 |-> AO1, S1 |-> S1]]

\* transcript operations of the second part, given the proof the prover emits
P2Ops(pn, pf) ==
  << OpA("A_I2", "pt", pf.AI2), OpA("A_O2", "pt", pf.AO2), OpA("S2", "pt", pf.S2), OpC("y"), OpC("z"),
     OpA("T_1", "pt", pf.T1), OpA("T_3", "pt", pf.T3), OpA("T_4", "pt", pf.T4), OpA("T_5", "pt", pf.T5),
     OpA("T_6", "pt", pf.T6), OpC("u"), OpC("x"),
     OpA("t_x", "sc", pf.tx), OpA("t_x_blinding", "sc", pf.txb), OpA("e_blinding", "sc", pf.eb), OpC("w") >>
  \o CreateOps(pn, pf)

(***************************************************************************)
(* Proving, second part.  st already contains whatever the callbacks       *)
(* added.  d = the remaining RNG scalars, ch = the challenge scalars the   *)
(* code derived, in order: y, z, u, x, w, u_1 .. u_k.                      *)
(***************************************************************************)
ProveP2(env, cap, st, mid, d, ch) ==
  LET n1 == mid.n1
      n == Len(st.aL)
      n2 == n - n1
      pn == Pad2(n)
      m == Len(st.v)
      has2 == n2 > 0
      off == IF has2 THEN 3 ELSE 0
      i2 == IF has2 THEN At(d, 1, 0) ELSE 0
      o2 == IF has2 THEN At(d, 2, 0) ELSE 0
      s2 == IF has2 THEN At(d, 3, 0) ELSE 0
      sL2 == [i \in 1 .. n2 |-> At(d, off + i, 0)]
      sR2 == [i \in 1 .. n2 |-> At(d, off + n2 + i, 0)]
      tb == [k \in 1 .. 5 |-> At(d, off + 2 * n2 + k, 0)]      \* t_1,t_3,t_4,t_5,t_6 blindings
      G2 == SubSeq(env.G, n1 + 1, n)   H2 == SubSeq(env.H, n1 + 1, n)
      aL2 == Drop(st.aL, n1)  aR2 == Drop(st.aR, n1)  aO2 == Drop(st.aO, n1)
      AI2 == IF has2 THEN Fadd(Fmul(i2, env.Bb), Fadd(IP(aL2, G2), IP(aR2, H2))) ELSE 0
      AO2 == IF has2 THEN Fadd(Fmul(o2, env.Bb), IP(aO2, G2)) ELSE 0
      S2 == IF has2 THEN Fadd(Fmul(s2, env.Bb), Fadd(IP(sL2, G2), IP(sR2, H2))) ELSE 0
      y == At(ch, 1, 1)  z == At(ch, 2, 1)  u == At(ch, 3, 1)  x == At(ch, 4, 1)  w == At(ch, 5, 1)
      uk == IF Len(ch) > 5 THEN Drop(ch, 5) ELSE << >>
      fl == Flatten(st.cons, n, m, z)
      yp == Powers(y, pn)
      yiv == Powers(Finv(y), pn)
      sL == mid.sL1 \o sL2   sR == mid.sR1 \o sR2
      l1 == [i \in 1 .. n |-> Fadd(st.aL[i], Fmul(yiv[i], fl.wR[i]))]
      l2 == st.aO
      l3 == sL
      r0 == [i \in 1 .. n |-> Fsub(fl.wO[i], yp[i])]
      r1 == [i \in 1 .. n |-> Fadd(Fmul(yp[i], st.aR[i]), fl.wL[i])]
      r3 == [i \in 1 .. n |-> Fmul(yp[i], sR[i])]
      t1 == IP(l1, r0)
      t2 == Fadd(IP(l1, r1), IP(l2, r0))
      t3 == Fadd(IP(l2, r1), IP(l3, r0))
      t4 == Fadd(IP(l1, r3), IP(l3, r1))
      t5 == IP(l2, r3)
      t6 == IP(l3, r3)
      T1 == Commit(env, t1, tb[1])  T3 == Commit(env, t3, tb[2])  T4 == Commit(env, t4, tb[3])
      T5 == Commit(env, t5, tb[4])  T6 == Commit(env, t6, tb[5])
      t2b == IP(fl.wV, st.vb)
      Poly6(c1, c2, c3, c4, c5, c6) ==
        Fmul(x, Fadd(c1, Fmul(x, Fadd(c2, Fmul(x, Fadd(c3, Fmul(x, Fadd(c4, Fmul(x, Fadd(c5, Fmul(x, c6)))))))))))
      tx == Poly6(t1, t2, t3, t4, t5, t6)
      txb == Poly6(tb[1], t2b, tb[2], tb[3], tb[4], tb[5])
      lvec == [i \in 1 .. pn |-> IF i <= n
                 THEN Fmul(x, Fadd(l1[i], Fmul(x, Fadd(l2[i], Fmul(x, l3[i])))))
                 ELSE 0]
      rvec == [i \in 1 .. pn |-> IF i <= n
                 THEN Fadd(r0[i], Fmul(x, Fadd(r1[i], Fmul(x, Fmul(x, r3[i])))))
                 ELSE Fneg(yp[i])]
      ib == Fadd(mid.i1, Fmul(u, i2))
      ob == Fadd(mid.o1, Fmul(u, o2))
      sb == Fadd(mid.s1, Fmul(u, s2))
      eb == Fmul(x, Fadd(ib, Fmul(x, Fadd(ob, Fmul(x, sb)))))
      Q == Fmul(w, env.B)
      Gf == [i \in 1 .. pn |-> IF i <= n1 THEN 1 ELSE u]
      Hf == [i \in 1 .. pn |-> Fmul(yiv[i], Gf[i])]
      ipp == Create(lvec, rvec, Take(env.G, pn), Take(env.H, pn), Gf, Hf, Q, uk)
      ops1 == << OpA("A_I2", "pt", AI2), OpA("A_O2", "pt", AO2), OpA("S2", "pt", S2), OpC("y"), OpC("z") >>
  IN IF CapError2(cap, n)
     THEN [res |-> "InvalidGeneratorsLength", ops |-> << >>, used |-> 0, degenerate |-> FALSE, proof |-> << >>]
     ELSE IF y = 0
     THEN [res |-> "degenerate", ops |-> ops1, used |-> off + 2 * n2, degenerate |-> TRUE, proof |-> << >>]
     ELSE [res |-> IF ipp.degenerate THEN "degenerate" ELSE "ok",
           ops |-> << >>,          \* P2Ops(pn, proof emitted)
           used |-> off + 2 * n2 + 5,
           degenerate |-> ipp.degenerate,
           proof |-> [AI1 |-> mid.AI1, AO1 |-> mid.AO1, S1 |-> mid.S1, AI2 |-> AI2, AO2 |-> AO2, S2 |-> S2,
                      T1 |-> T1, T3 |-> T3, T4 |-> T4, T5 |-> T5, T6 |-> T6,
                      tx |-> tx, txb |-> txb, eb |-> eb, L |-> ipp.L, R |-> ipp.R, a |-> ipp.a, b |-> ipp.b]]

\* number of RNG scalars a complete proving run draws (C09)
DrawCount(n1, n2) == 3 + 2 * n1 + (IF n2 > 0 THEN 3 ELSE 0) + 2 * n2 + 5

(***************************************************************************)
(* Verifying, first part: "m", validation of the first-phase commitments,  *)
(* phase separator.                                                        *)
(***************************************************************************)
RECURSIVE ValidateOps(_, _)
\* validate_and_append_point over a list of <<label, point>>: stops at the first identity
ValidateOps(items, acc) ==
  IF items = << >> THEN [ok |-> TRUE, ops |-> acc]
  ELSE IF Head(items)[2] = 0 THEN [ok |-> FALSE, ops |-> acc]
  ELSE ValidateOps(Tail(items), Append(acc, OpA(Head(items)[1], "pt", Head(items)[2])))

VerifyP1(st, pf) ==
  LET m == Len(st.V)
      val == ValidateOps(<< <<"A_I1", pf.AI1>>, <<"A_O1", pf.AO1>>, <<"S1", pf.S1>> >>, << OpA("m", "u64", m) >>)
  IN IF ~val.ok
     THEN [res |-> "VerificationError", ops |-> val.ops, st |-> st, n1 |-> st.nv]
     ELSE [res |-> "", ops |-> Append(val.ops, IF st.ndefer = 0 THEN DomSep1Phase ELSE DomSep2Phase),
           st |-> SwitchSt(st), n1 |-> st.nv]

(***************************************************************************)
(* Everything the verifier computes from the statement, the proof and the  *)
(* challenges (y, z, u, x, w, u_1..u_k, r).  Total: defined for any proof  *)
(* record whose L and R have the same length k with 2^k = padded n.        *)
(***************************************************************************)
VerifierAlgebra(env, st, n1, pf, y, z, u, x, w, uk, r) ==
  LET n == st.nv
      pn == Pad2(n)
      m == Len(st.V)
      fl == Flatten(st.cons, n, m, z)
      vs == VerificationScalars(pn, uk)
      s == vs.s
      a == pf.a  b == pf.b
      yiv == Powers(Finv(y), pn)
      yp == Powers(y, pn)
      ynwR == [i \in 1 .. pn |-> IF i <= n THEN Fmul(fl.wR[i], yiv[i]) ELSE 0]
      wLp == [i \in 1 .. pn |-> IF i <= n THEN fl.wL[i] ELSE 0]
      wOp == [i \in 1 .. pn |-> IF i <= n THEN fl.wO[i] ELSE 0]
      delta == IP(Take(ynwR, n), fl.wL)
      u1 == [i \in 1 .. pn |-> IF i <= n1 THEN 1 ELSE u]
      gs == [i \in 1 .. pn |-> Fmul(u1[i], Fsub(Fmul(x, ynwR[i]), Fmul(a, s[i])))]
      hs == [i \in 1 .. pn |->
               Fmul(u1[i], Fsub(Fmul(yiv[i], Fsub(Fadd(Fmul(x, wLp[i]), wOp[i]), Fmul(b, s[pn + 1 - i]))), 1))]
      xx == Fmul(x, x)  xxx == Fmul(x, xx)  rxx == Fmul(r, xx)
      sB == Fadd(Fmul(w, Fsub(pf.tx, Fmul(a, b))), Fmul(r, Fsub(Fmul(xx, Fadd(fl.wc, delta)), pf.tx)))
      sBb == Fsub(Fneg(pf.eb), Fmul(r, pf.txb))
      Gv == Take(env.G, pn)  Hv == Take(env.H, pn)
      \* the layout of verifier.rs:528-539 against the point list of 574-590
      scalars == << sB, sBb >> \o gs \o hs
                   \o << x, xx, xxx, Fmul(u, x), Fmul(u, xx), Fmul(u, xxx) >>
                   \o [j \in 1 .. m |-> Fmul(fl.wV[j], rxx)]
                   \o << Fmul(r, x), Fmul(rxx, x), Fmul(rxx, xx), Fmul(rxx, xxx), Fmul(Fmul(rxx, xx), xx) >>
                   \o vs.usq \o vs.uinvsq
      points == << env.B, env.Bb >> \o Gv \o Hv
                   \o << pf.AI1, pf.AO1, pf.S1, pf.AI2, pf.AO2, pf.S2 >>
                   \o st.V
                   \o << pf.T1, pf.T3, pf.T4, pf.T5, pf.T6 >>
                   \o pf.L \o pf.R
      mega == IP(scalars, points)
      \* (b) committed-evaluation relation: t_x B + t_blind B~ = x^2 (wc+delta) B + x^2 <wV,V> + sum x^i T_i
      Tres == Fsub(Fadd(Fadd(Fmul(Fmul(xx, Fadd(fl.wc, delta)), env.B), Fmul(xx, IP(fl.wV, st.V))),
                        SumSeq(<< Fmul(x, pf.T1), Fmul(xxx, pf.T3), Fmul(Fmul(xx, xx), pf.T4),
                                  Fmul(Fmul(xx, xxx), pf.T5), Fmul(Fmul(xxx, xxx), pf.T6) >>)),
                   Fadd(Fmul(pf.tx, env.B), Fmul(pf.txb, env.Bb)))
      \* (c) inner-product relation with explicitly folded generators
      Gp == Had(u1, Gv)
      Hp == Had(Had(u1, yiv), Hv)
      Q == Fmul(w, env.B)
      Ppt == SumSeq(<< Fmul(x, pf.AI1), Fmul(xx, pf.AO1), Fmul(xxx, pf.S1),
                       Fmul(u, SumSeq(<< Fmul(x, pf.AI2), Fmul(xx, pf.AO2), Fmul(xxx, pf.S2) >>)),
                       Fneg(Fmul(pf.eb, env.Bb)),
                       IP([i \in 1 .. pn |-> Fmul(x, ynwR[i])], Gp),
                       IP([i \in 1 .. pn |-> Fsub(Fadd(Fmul(x, wLp[i]), wOp[i]), yp[i])], Hp),
                       Fmul(pf.tx, Q) >>)
      Ires == FoldResidual([L |-> pf.L, R |-> pf.R, a |-> a, b |-> b], uk, Ppt, Q, Gp, Hp)
  IN [mega |-> mega, Tres |-> Tres, Ires |-> Ires, scalars |-> scalars, points |-> points,
      delta |-> delta, wc |-> fl.wc, wV |-> fl.wV]

(***************************************************************************)
(* Verifying, second part.  ch = challenge scalars in derivation order:    *)
(* y, z, u, x, w, u_1 .. u_k, r.                                            *)
(***************************************************************************)
VerifyP2(env, cap, st, n1, pf, ch) ==
  LET n == st.nv
      pn == Pad2(n)
      nL == Len(pf.L)  nR == Len(pf.R)
      y == At(ch, 1, 1)  z == At(ch, 2, 1)  u == At(ch, 3, 1)  x == At(ch, 4, 1)  w == At(ch, 5, 1)
      uk == [j \in 1 .. nL |-> At(ch, 5 + j, 1)]
      r == At(ch, 6 + nL, 1)
      ops1 == << OpA("A_I2", "pt", pf.AI2), OpA("A_O2", "pt", pf.AO2), OpA("S2", "pt", pf.S2), OpC("y"), OpC("z") >>
      tval == ValidateOps(<< <<"T_1", pf.T1>>, <<"T_3", pf.T3>>, <<"T_4", pf.T4>>, <<"T_5", pf.T5>>, <<"T_6", pf.T6>> >>, << >>)
      ops2 == << OpC("u"), OpC("x"), OpA("t_x", "sc", pf.tx), OpA("t_x_blinding", "sc", pf.txb),
                 OpA("e_blinding", "sc", pf.eb), OpC("w") >>
      \* the rounds up to the first identity point
      RoundsVal[j \in 0 .. nL] ==
        IF j = 0 THEN [ok |-> TRUE, ops |-> DomSepIPP(pn)]
        ELSE LET prev == RoundsVal[j - 1] IN
             IF ~prev.ok THEN prev
             ELSE IF pf.L[j] = 0 THEN [ok |-> FALSE, ops |-> prev.ops]
             ELSE IF pf.R[j] = 0 THEN [ok |-> FALSE, ops |-> Append(prev.ops, OpA("L", "pt", pf.L[j]))]
             ELSE [ok |-> TRUE, ops |-> prev.ops \o << OpA("L", "pt", pf.L[j]), OpA("R", "pt", pf.R[j]), OpC("u") >>]
      alg == VerifierAlgebra(env, st, n1, pf, y, z, u, x, w, uk, r)
      Done(res, ops, dg) == [res |-> res, ops |-> ops, degenerate |-> dg, alg |-> << >>]
  IN IF CapError2(cap, n) THEN Done("InvalidGeneratorsLength", << >>, FALSE)
     ELSE IF ~tval.ok THEN Done("VerificationError", ops1 \o tval.ops, FALSE)
     ELSE IF ~ShapeOk(pn, nL, nR) THEN Done("VerificationError", ops1 \o tval.ops \o ops2, FALSE)
     ELSE IF ~RoundsVal[nL].ok THEN Done("VerificationError", ops1 \o tval.ops \o ops2 \o RoundsVal[nL].ops, FALSE)
     ELSE IF y = 0 THEN Done("degenerate", ops1 \o tval.ops \o ops2 \o RoundsVal[nL].ops, TRUE)
     ELSE [res |-> IF alg.mega = 0 THEN "ok" ELSE "VerificationError",
           ops |-> ops1 \o tval.ops \o ops2 \o RoundsVal[nL].ops \o << OpCL(1), OpCf("r", 1) >>,
           degenerate |-> FALSE,
           \* the residuals of the unbatched relations, for C03
           alg |-> [mega |-> alg.mega, Tres |-> alg.Tres, Ires |-> alg.Ires, r |-> r,
                    nz |-> \A j \in 1 .. nL : uk[j] # 0]]     \* folding is defined for non-zero round challenges

(***************************************************************************)
(* batch_verify (verifier.rs:604-691).  members: the specification's       *)
(* individual results [res, alg] in batch order; alphas: the weights drawn *)
(* from the caller's RNG, one per instance.  The first instance whose      *)
(* scalar computation fails (identity point, shape, capacity) fails the    *)
(* batch with that error; otherwise one multiscalar check of the weighted  *)
(* sum of the combined residuals.                                          *)
(***************************************************************************)
BatchVerdict(members, alphas) ==
  LET early == {i \in 1 .. Len(members) : members[i].alg = << >>}
      first == CHOOSE i \in early : \A j \in early : i <= j
      total == SumSeq([i \in 1 .. Len(members) |-> Fmul(alphas[i], members[i].alg.mega)])
  IN IF early # {} THEN members[first].res
     ELSE IF total = 0 THEN "ok" ELSE "VerificationError"

(***************************************************************************)
(* The unbatched relations of C03: (a) mandatory points non-identity,      *)
(* (b) Tres = 0, (c) Ires = 0.  The combined check is mega = Ires + r Tres.*)
(***************************************************************************)
MandatoryNonIdentity(pf) ==
  /\ pf.AI1 # 0 /\ pf.AO1 # 0 /\ pf.S1 # 0
  /\ pf.T1 # 0 /\ pf.T3 # 0 /\ pf.T4 # 0 /\ pf.T5 # 0 /\ pf.T6 # 0
  /\ \A j \in 1 .. Len(pf.L) : pf.L[j] # 0
  /\ \A j \in 1 .. Len(pf.R) : pf.R[j] # 0

RefAccept(alg, pf) == MandatoryNonIdentity(pf) /\ alg.Tres = 0 /\ alg.Ires = 0
MegaIsWeightedSum(alg, r) == alg.mega = Fadd(alg.Ires, Fmul(r, alg.Tres))
=============================================================================
