SPECIFICATION TraceSpec
CONSTANT P = 7
POSTCONDITION TraceAccepted
INVARIANT IdealCompleteness
INVARIANT IdealSoundness
CHECK_DEADLOCK FALSE
