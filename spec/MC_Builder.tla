----------------------------- MODULE MC_Builder -----------------------------
(***************************************************************************)
(* Bounded model of the constraint-system builder: a prover and a verifier *)
(* driven in lock step through every sequence of at most MaxCalls calls    *)
(* from {commit, allocate, allocate_multiplier, multiply, constrain,       *)
(* specify_randomized_constraints, <phase switch>, challenge_scalar},      *)
(* first phase and second phase.                                           *)
(*                                                                         *)
(* Checked here (C16): Mirror, PendingClosed, NoCrossPhasePair,            *)
(* HandlesAgree, MissingAssignmentIsError.                                 *)
(* Generated from here (GEN = TRUE): one JSON line per behaviour - the     *)
(* program, the handles and gate counts both roles must return call by     *)
(* call, and the ideal verdict - replayed against the real Prover and      *)
(* Verifier on every curve.                                                *)
(***************************************************************************)
EXTENDS System, Json

CONSTANTS MaxCalls, GEN, Rich, MaxDev     \* Rich: programs with linear-combination templates, by-construction constants, one deviation

VARIABLES hist       \* history: calls made so far with the handles the model returned

mvars == << vars, hist >>

Env0 == [B |-> 1, Bb |-> 7, G |-> << 11, 13, 17, 19, 23, 29, 31, 37 >>, H |-> << 41, 43, 47, 53, 59, 61, 67, 71 >>]

MCInit ==
  /\ env = [P |-> Env0, V |-> Env0]
  /\ cs = [P |-> PInit, V |-> VInit]
  /\ tr = [P |-> << DomSepR1CS >>, V |-> << DomSepR1CS >>]
  /\ ph = [P |-> "build", V |-> "build"]
  /\ mid = [P |-> << >>, V |-> << >>]
  /\ wire = NoProof /\ sent = NoProof
  /\ res = [P |-> "", V |-> ""]
  /\ cberr = [P |-> "", V |-> ""]
  /\ degen = FALSE
  /\ out = NoOut
  /\ hist = [ops |-> << >>, cb |-> << >>, retP |-> << >>, retV |-> << >>, fin |-> FALSE, pend |-> NoPending, vskip |-> FALSE, dev |-> FALSE, ndev |-> 0, nfix |-> 0, nch |-> 0, known |-> << >>, cbs |-> << >>, cur |-> 0]

NCalls == Len(hist.ops) + Len(hist.cb)
LastGate == PLen(cs.P) - 1

\* the calls offered in the current state; LC arguments refer to handles that exist
BasicCalls ==
  (IF ph.P = "build"
   THEN {[op |-> "commit", v |-> 2, vb |-> 3], [op |-> "defer", cb |-> cs.P.ndefer]}
   ELSE {[op |-> "chal", label |-> "c"]})
  \cup {[op |-> "alloc", a |-> 2],
        [op |-> "allocmul", l |-> 2, r |-> 3],
        [op |-> "mul", l |-> << >>, r |-> << >>],
        [op |-> "con", lc |-> << >>]}
  \cup (IF PLen(cs.P) > 0
        THEN {[op |-> "mul", l |-> << <<"L", LastGate, 1>> >>, r |-> << <<"O", LastGate, 1>>, <<"1", 0, 1>> >>],
              \* probes: "the right wire / the output of the newest gate is zero"
              [op |-> "con", lc |-> << <<"R", LastGate, 1>> >>],
              [op |-> "con", lc |-> << <<"O", LastGate, 1>> >>]}
        ELSE {})

(* Rich programs.  A template is a pair: m = the linear combination as the model sees it (coefficients in F),
   p = the same as the program spells it (negative integers, challenge-dependent coefficients k0 + k1*challenge).
   The model instantiates every challenge with ChalVal: by-construction constraints do not depend on it. *)
ChalVal == 7
NC == Len(cs.P.v)
\* programs refer only to handles some call has returned (hist.known), as API users must
KnownOf(kind) == SelectSeq(hist.known, LAMBDA h : h[1] = kind)
HasK(kind) == Len(KnownOf(kind)) > 0
LastK(kind) == KnownOf(kind)[Len(KnownOf(kind))]
FirstK(kind) == KnownOf(kind)[1]
Templates ==
  {[m |-> << >>, p |-> << >>]}
  \cup (IF HasK("L")
        THEN {[m |-> << <<"L", LastK("L")[2], 1>> >>, p |-> << <<"L", LastK("L")[2], 1>> >>]}
        ELSE {})
  \cup (IF HasK("O") /\ HasK("R")
        THEN {[m |-> << <<"O", LastK("O")[2], 2>>, <<"R", FirstK("R")[2], MinusOne>>, <<"1", 0, 5>> >>,
               p |-> << <<"O", LastK("O")[2], 2>>, <<"R", FirstK("R")[2], -1>>, <<"1", 0, 5>> >>]}
        ELSE {})
  \cup (IF HasK("V")
        THEN {[m |-> << <<"V", LastK("V")[2], 3>>, <<"V", FirstK("V")[2], 1>> >>,
               p |-> << <<"V", LastK("V")[2], 3>>, <<"V", FirstK("V")[2], 1>> >>]}
        ELSE {})
  \cup (IF ph.P = "cb" /\ hist.nch > 0 /\ HasK("L")
        THEN {[m |-> << <<"L", LastK("L")[2], Fadd(1, Fmul(2, ChalVal))>> >>,
               p |-> << <<"L", LastK("L")[2], [k0 |-> 1, ch |-> hist.nch - 1, k1 |-> 2]>> >>, chal |-> TRUE]}
        ELSE {})

(* Confusion deviations.  A constraint that would hold if one of its wires were another wire - a neighbour wire of the same gate, the
   same wire of an adjacent gate, another commitment - and that the real assignment violates because the two values differ: the offset
   is coefficient * (value of the wire - value of the other wire).  A bookkeeping that confuses two wires (an aliased key, a shifted
   index, swapped weight vectors) accepts exactly these. *)
WireVal(w) == CASE w[1] = "L" -> cs.P.aL[w[2] + 1] [] w[1] = "R" -> cs.P.aR[w[2] + 1] [] w[1] = "O" -> cs.P.aO[w[2] + 1]
                [] w[1] = "V" -> cs.P.v[w[2] + 1]
WireExists(w) == w[2] >= 0 /\ (IF w[1] = "V" THEN w[2] < Len(cs.P.v) ELSE w[2] < PLen(cs.P))
Neighbours(w) ==
  {x \in (IF w[1] = "V" THEN {<<"V", w[2] - 1>>, <<"V", w[2] + 1>>}
          ELSE {<<k, w[2]>> : k \in {"L", "R", "O"} \ {w[1]}} \cup {<<w[1], w[2] - 1>>, <<w[1], w[2] + 1>>}) : WireExists(x)}
ConfDeltas(t) ==
  UNION {IF t.m[k][1] = "1" \/ "chal" \in DOMAIN t THEN {}            \* (not the constant; not a challenge-dependent coefficient)
         ELSE {Fmul(t.m[k][3], Fsub(WireVal(t.m[k]), WireVal(x))) : x \in Neighbours(t.m[k])} : k \in 1 .. Len(t.m)} \ {0}
Signed(x) == IF x > P \div 2 THEN x - P ELSE x

\* constrain(lc + c) with c = -value(lc) + delta: satisfied by construction (delta = 0) or violated by exactly delta
FixCon(t, delta) ==
  [op |-> "con", lc |-> t.m \o << <<"1", 0, Fadd(Fneg(PEval(cs.P, t.m)), delta)>> >>,
   prog |-> IF delta = 0 THEN [op |-> "con", lc |-> t.p, fix |-> hist.nfix + 1]
                         ELSE [op |-> "con", lc |-> t.p, fix |-> hist.nfix + 1, delta |-> Signed(delta)],
   isfix |-> TRUE, isdev |-> delta # 0]

RichCalls ==
  (IF ph.P = "build"
   THEN {[op |-> "commit", v |-> 2, vb |-> 3], [op |-> "commit", v |-> 0, vb |-> 1], [op |-> "defer", cb |-> cs.P.ndefer]}
   ELSE {[op |-> "chal", label |-> "c"]})
  \cup {[op |-> "alloc", a |-> 4], [op |-> "allocmul", l |-> 2, r |-> 3]}
  \cup {[op |-> "mul", l |-> t.m, r |-> u.m, prog |-> [op |-> "mul", l |-> t.p, r |-> u.p]] : t \in Templates, u \in Templates}
  \cup {FixCon(t, 0) : t \in Templates}
  \* a constraint without any term (an empty sum of wires): it holds trivially but occupies a position, i.e. a power of z, on both sides
  \cup {[op |-> "con", lc |-> << >>, prog |-> [op |-> "con", lc |-> << >>]]}
  \* deviations: at most MaxDev per behaviour; a second one lets errors of equal or opposite size meet at different positions
  \* (a sound verifier weighs every gate and constraint with its own monomial, so they can never cancel)
  \cup (IF hist.ndev >= MaxDev THEN {} ELSE
        {FixCon(t, d) : t \in Templates, d \in {1, MinusOne}}
        \cup (IF hist.ndev = 0 THEN UNION {{FixCon(t, d) : d \in ConfDeltas(t)} : t \in Templates} ELSE {})
        \cup (IF PLen(cs.P) > 0
              THEN {[op |-> "setgate", i |-> g, l |-> cs.P.aL[g + 1], r |-> cs.P.aR[g + 1], o |-> Fadd(cs.P.aO[g + 1], 1),
                     prog |-> [op |-> "breakgate", i |-> g, delta |-> 1], isdev |-> TRUE] : g \in {0, LastGate} \ {cs.P.pending}}
              ELSE {}))

Calls == IF Rich THEN RichCalls ELSE BasicCalls

VArg(c) == IF c.op = "commit" THEN [op |-> "commit", V |-> Commit(env.P, c.v, c.vb)] ELSE c

\* the call as the program format of the harness spells it
ProgOp(c) == IF "prog" \in DOMAIN c THEN c.prog ELSE c

LockCall(c) ==
  /\ ~hist.fin /\ NCalls < MaxCalls /\ c.op # "alloc_none"
  /\ CallAllowed("P", c) /\ CallAllowed("V", c)
  /\ LET rp == PCall(env.P, cs.P, c)
         rv == VCall(env.V, cs.V, VArg(c))
     IN /\ cs' = [P |-> rp.st, V |-> rv.st]
        /\ tr' = [P |-> tr.P \o rp.ops, V |-> tr.V \o rv.ops]
        /\ cberr' = [P |-> IF ph.P = "cb" THEN rp.err ELSE "", V |-> IF ph.V = "cb" THEN rv.err ELSE ""]
        /\ out' = [ret |-> << rp.ret, rv.ret >>, err |-> << rp.err, rv.err >>, used |-> 0, ref |-> << >>]
        /\ hist' = [hist EXCEPT !.ops = IF ph.P = "build" THEN Append(@, ProgOp(c)) ELSE @,
                                !.cb = IF ph.P = "cb" THEN Append(@, ProgOp(c)) ELSE @,
                                !.cbs = IF ph.P = "cb" THEN [@ EXCEPT ![hist.cur] = Append(@, ProgOp(c))] ELSE @,
                                !.retP = Append(@, [ret |-> IF c.op = "commit" THEN rp.ret[2] ELSE rp.ret,
                                                    err |-> rp.err, len |-> PLen(rp.st)]),
                                !.retV = Append(@, [ret |-> rv.ret, err |-> rv.err, len |-> VLen(rv.st)]),
                                !.dev = @ \/ ("isdev" \in DOMAIN c /\ c.isdev),
                                !.ndev = IF "isdev" \in DOMAIN c /\ c.isdev THEN @ + 1 ELSE @,
                                !.nfix = IF "isfix" \in DOMAIN c THEN @ + 1 ELSE @,
                                !.nch = IF c.op = "chal" THEN @ + 1 ELSE @,
                                !.known = @ \o (CASE c.op \in {"alloc", "commit"} -> << rv.ret >>
                                                  [] c.op \in {"allocmul", "mul"} -> rv.ret
                                                  [] OTHER -> << >>)]
  /\ UNCHANGED << env, ph, mid, wire, sent, res, degen >>

\* the prover is asked to allocate without an assignment: it reports the error and nothing changes;
\* a gadget propagates the error, so the behaviour ends here (the verifier side is not compared)
MissingCall ==
  /\ ~hist.fin /\ NCalls < MaxCalls
  /\ CallAllowed("P", [op |-> "alloc_none"])
  /\ LET rp == PCall(env.P, cs.P, [op |-> "alloc_none"])
     IN /\ cs' = [cs EXCEPT !.P = rp.st]
        /\ cberr' = [cberr EXCEPT !.P = IF ph.P = "cb" THEN rp.err ELSE ""]
        /\ out' = [ret |-> << rp.ret >>, err |-> << rp.err >>, used |-> 0, ref |-> << >>]
        /\ hist' = [hist EXCEPT !.ops = IF ph.P = "build" THEN Append(@, [op |-> "alloc"]) ELSE @,
                                !.cb = IF ph.P = "cb" THEN Append(@, [op |-> "alloc"]) ELSE @,
                                !.cbs = IF ph.P = "cb" THEN [@ EXCEPT ![hist.cur] = Append(@, [op |-> "alloc"])] ELSE @,
                                !.retP = Append(@, [ret |-> rp.ret, err |-> rp.err, len |-> PLen(rp.st)]),
                                !.fin = TRUE, !.vskip = TRUE]
  /\ UNCHANGED << env, tr, ph, mid, wire, sent, res, degen >>

\* the builder-level effect of prove()/verify() reaching the callbacks (ProveStart / VerifyStart)
LockSwitch ==
  /\ ~hist.fin /\ ph.P = "build" /\ cs.P.ndefer > 0
  /\ cs' = [P |-> SwitchSt(cs.P), V |-> SwitchSt(cs.V)]
  /\ mid' = [P |-> [ref |-> [n1 |-> PLen(cs.P)], em |-> << >>], V |-> [n1 |-> VLen(cs.V)]]
  /\ ph' = [P |-> "cb", V |-> "cb"]
  /\ tr' = [P |-> Append(tr.P, DomSep2Phase), V |-> Append(tr.V, DomSep2Phase)]
  /\ out' = NoOut
  /\ hist' = [hist EXCEPT !.pend = cs.P.pending, !.cur = 1, !.cbs = [k \in 1 .. cs.P.ndefer |-> << >>]]
  /\ UNCHANGED << env, wire, sent, res, cberr, degen >>

\* the current callback returns and the next registered one starts: nothing in the bookkeeping changes -
\* in particular a half-assigned gate stays open across callbacks of the same phase
NextCb ==
  /\ ~hist.fin /\ ph.P = "cb" /\ hist.cur < cs.P.ndefer /\ cberr.P = ""
  /\ hist' = [hist EXCEPT !.cur = @ + 1]
  /\ UNCHANGED vars

\* the behaviour ends here (prove / verify are called)
Finish ==
  /\ ~hist.fin
  /\ ph.P = "build" => cs.P.ndefer = 0       \* with callbacks registered the run continues into them
  /\ hist' = [hist EXCEPT !.fin = TRUE]
  /\ UNCHANGED vars

MCNext == (\E c \in Calls : LockCall(c)) \/ MissingCall \/ LockSwitch \/ NextCb \/ Finish

MCSpec == MCInit /\ [][MCNext]_mvars

(***************************************************************************)
(* Properties                                                              *)
(***************************************************************************)
(***************************************************************************)
(* Refinement: every step of the concrete builder pair is a step (or a     *)
(* stutter) of the counter abstraction BuilderInd, whose invariant IndInv  *)
(* is proved inductive for call sequences of ANY length with Apalache.     *)
(***************************************************************************)
Abs == INSTANCE BuilderInd WITH pn <- PLen(cs.P), pp <- cs.P.pending, vn <- VLen(cs.V), vp <- cs.V.pending,
                                phase <- IF ph.P = "cb" THEN 2 ELSE 1,
                                n1 <- IF ph.P = "cb" THEN mid.P.ref.n1 ELSE 0
AbsVars == << PLen(cs.P), cs.P.pending, VLen(cs.V), cs.V.pending, ph.P >>
RefinesAbstraction == hist.vskip \/ Abs!IndInv
AbsStep == [][hist'.vskip \/ Abs!Next]_AbsVars

AllOps == hist.ops \o hist.cb

\* Rich programs: exactly the behaviours with a deviation have an unsatisfied constraint or gate
DeviationIffUnsatisfied == Rich => (hist.dev <=> ~Satisfied(cs.P))

\* identical handles and gate counts, call by call (the prover's commit also returns the commitment)
HandlesAgree ==
  \A k \in 1 .. Len(hist.retV) :
     /\ hist.retP[k].len = hist.retV[k].len
     /\ hist.retP[k].ret = hist.retV[k].ret

MirrorLock == hist.vskip \/ (PLen(cs.P) = VLen(cs.V) /\ cs.P.pending = cs.V.pending /\ cs.P.ndefer = cs.V.ndefer)

\* an allocation in the second phase never pairs with, or returns, a gate of the first phase
NoCrossPhasePair ==
  ph.P = "cb" =>
    \A k \in Len(hist.ops) + 1 .. Len(hist.retV) :
       LET r == hist.retV[k].ret IN
       AllOps[k].op = "alloc" => r[2] >= mid.P.ref.n1

\* a half gate left open at the end of the first phase is closed with right wire and output zero
ClosedAtSwitch ==
  (ph.P = "cb" /\ hist.pend # NoPending /\ ~hist.dev) =>          \* (~dev: the overwrite hook was not used)
     (cs.P.aR[hist.pend + 1] = 0 /\ cs.P.aO[hist.pend + 1] = 0)

\* the prover reports a missing assignment as an error (not a wrong variable) and changes nothing
MissingAssignmentIsError ==
  hist.vskip => LET k == Len(hist.retP) IN
                /\ hist.retP[k].err = "MissingAssignment" /\ hist.retP[k].ret = << >>
                /\ hist.retP[k].len = (IF k = 1 THEN 0 ELSE hist.retP[k - 1].len)

\* two consecutive single allocations of one phase share one gate as its left and right wire
PairsShareGate ==
  \A k \in 2 .. Len(hist.retV) :
     LET prev == hist.retV[k - 1].ret  cur == hist.retV[k].ret IN
     (AllOps[k].op = "alloc" /\ AllOps[k - 1].op = "alloc" /\ prev[1] = "L"
        /\ ((k - 1 <= Len(hist.ops)) = (k <= Len(hist.ops))))
       => (cur[1] = "R" /\ cur[2] = prev[2])

MCInv == /\ RefinesAbstraction /\ MirrorLock /\ HandlesAgree /\ PendingClosed /\ NoCrossPhasePair /\ ClosedAtSwitch
         /\ MissingAssignmentIsError /\ PairsShareGate /\ DeviationIffUnsatisfied

(***************************************************************************)
(* Behaviour generation                                                    *)
(***************************************************************************)
Behaviour ==
  [p |-> [label |-> "verif", ops |-> hist.ops, cbs |-> IF ph.P = "cb" THEN hist.cbs ELSE [k \in 1 .. cs.P.ndefer |-> << >>],
          cap |-> Pad2(PLen(cs.P))],
   expect_v |-> IF hist.vskip THEN "" ELSE IF Satisfied(cs.P) THEN "ok" ELSE "reject",
   expect_p |-> IF cberr.P # "" THEN cberr.P ELSE "ok",      \* a failing callback fails prove
   vskip |-> hist.vskip,
   gates |-> [i \in 1 .. PLen(cs.P) |-> << cs.P.aL[i], cs.P.aR[i], cs.P.aO[i] >>],    \* the prover's final assignment
   rets |-> [P |-> hist.retP, V |-> hist.retV]]

Emit == (GEN /\ hist.fin) => PrintT(<< "BEHAVIOUR", ToJson(Behaviour) >>)

\* history is irrelevant to the invariants: the state space is explored modulo hist when not generating
View == IF GEN THEN mvars ELSE << vars, NCalls, hist.fin, hist.cur >>
=============================================================================
