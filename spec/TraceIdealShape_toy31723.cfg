SPECIFICATION TraceSpec
CONSTANT P = 31723
POSTCONDITION TraceAccepted
INVARIANT IdealShape
CHECK_DEADLOCK FALSE
