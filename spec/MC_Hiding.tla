------------------------------ MODULE MC_Hiding -----------------------------
(***************************************************************************)
(* C09 on the specification of the reference prover.  For every shape      *)
(* (n1, n2) <= Max and sampled witness, RNG stream and challenges:         *)
(*   BlindingPresent  each witness-bearing commitment is its witness part  *)
(*                    plus (its own draw) * B~, the draw being non-zero    *)
(*                    here; masking and polynomial commitments likewise    *)
(*   NonceInjective   the prover consumes exactly DrawCount(n1, n2) draws  *)
(*                    and every one of them matters: changing any single   *)
(*                    draw changes the proof (no draw is unused, and two   *)
(*                    roles never share a draw), while the statement-fixed *)
(*                    components never change                              *)
(***************************************************************************)
EXTENDS R1CS, TLC

CONSTANTS MaxN1, MaxN2

VARIABLES n1, n2, d, ch, done
hvars == << n1, n2, d, ch, done >>
NZ == 1 .. (P - 1)

HInit == /\ n1 \in 0 .. MaxN1 /\ n2 \in 0 .. MaxN2
         /\ d = [k \in 1 .. DrawCount(n1, n2) |-> RandomElement(NZ)]
         /\ ch = [k \in 1 .. 5 + Lg(Pad2(n1 + n2)) |-> RandomElement(NZ)]
         /\ done = FALSE
HNext == ~done /\ done' = TRUE /\ UNCHANGED << n1, n2, d, ch >>
HSpec == HInit /\ [][HNext]_hvars

Env == [B |-> 1, Bb |-> 7919, G |-> [i \in 1 .. 16 |-> 1000 + 37 * i], H |-> [i \in 1 .. 16 |-> 5000 + 91 * i]]
N == n1 + n2
\* witness: gate i has (i+1, i+2, product); one commitment; constraints over all wire kinds
St1 == [aL |-> [i \in 1 .. n1 |-> i + 1], aR |-> [i \in 1 .. n1 |-> i + 2], aO |-> [i \in 1 .. n1 |-> (i + 1) * (i + 2)],
        v |-> << 5 >>, vb |-> << 9 >>, pending |-> NoPending, ndefer |-> IF n2 > 0 THEN 1 ELSE 0,
        cons |-> << << <<"V", 0, 3>>, <<"1", 0, P - 15>> >> >>]
St2 == [St1 EXCEPT !.aL = @ \o [i \in 1 .. n2 |-> 20 + i], !.aR = @ \o [i \in 1 .. n2 |-> 30 + i],
                   !.aO = @ \o [i \in 1 .. n2 |-> (20 + i) * (30 + i)],
                   !.cons = @ \o [i \in 1 .. N |-> << <<"L", i - 1, 2>>, <<"R", i - 1, 7>>, <<"O", i - 1, 11>>,
                                                     <<"1", 0, Fneg(2 * (IF i <= n1 THEN i + 1 ELSE 20 + i - n1)
                                                                     + 7 * (IF i <= n1 THEN i + 2 ELSE 30 + i - n1)
                                                                     + 11 * (IF i <= n1 THEN (i + 1) * (i + 2) ELSE (20 + i - n1) * (30 + i - n1)))>> >>]]
Proof(dd) ==
  LET r1 == ProveP1(Env, 16, St1, dd)
      r2 == ProveP2(Env, 16, St2, r1.mid, IF Len(dd) >= r1.used THEN Drop(dd, r1.used) ELSE << >>, ch)
  IN [pf |-> r2.proof, used |-> r1.used + r2.used, res |-> r2.res]

Base == Proof(d)
Fixed == (IF n2 = 0 THEN {"AI2", "AO2", "S2"} ELSE {}) \cup (IF N = 0 THEN {"tx", "a", "b"} ELSE {})
Fields == {"AI1", "AO1", "S1", "AI2", "AO2", "S2", "T1", "T3", "T4", "T5", "T6", "tx", "txb", "eb", "L", "R", "a", "b"}

NonceInjective ==
  /\ Base.res = "ok" /\ Base.used = DrawCount(n1, n2) /\ Base.used = Len(d)
  /\ \A k \in 1 .. Len(d) :
       LET alt == Proof([d EXCEPT ![k] = Fadd(@, 1)]) IN
       /\ alt.pf # Base.pf                                       \* every draw matters
       /\ \A f \in Fixed : alt.pf[f] = Base.pf[f]                 \* statement-fixed components never move

BlindingPresent ==
  LET pf == Base.pf
      G1 == Take(Env.G, n1)  H1 == Take(Env.H, n1)
      G2 == SubSeq(Env.G, n1 + 1, N)  H2 == SubSeq(Env.H, n1 + 1, N)
      off == 3 + 2 * n1
  IN /\ Fsub(pf.AI1, Fadd(IP(St1.aL, G1), IP(St1.aR, H1))) = Fmul(d[1], Env.Bb)
     /\ Fsub(pf.AO1, IP(St1.aO, G1)) = Fmul(d[2], Env.Bb)
     /\ Fsub(pf.S1, Fadd(IP([i \in 1 .. n1 |-> d[3 + i]], G1), IP([i \in 1 .. n1 |-> d[3 + n1 + i]], H1))) = Fmul(d[3], Env.Bb)
     /\ n2 > 0 => /\ Fsub(pf.AI2, Fadd(IP(Drop(St2.aL, n1), G2), IP(Drop(St2.aR, n1), H2))) = Fmul(d[off + 1], Env.Bb)
                  /\ Fsub(pf.AO2, IP(Drop(St2.aO, n1), G2)) = Fmul(d[off + 2], Env.Bb)
     /\ n2 = 0 => pf.AI2 = 0 /\ pf.AO2 = 0 /\ pf.S2 = 0
     /\ N = 0 => pf.tx = 0 /\ pf.a = 0 /\ pf.b = P - 1

HInv == done => (NonceInjective /\ BlindingPresent)
=============================================================================
