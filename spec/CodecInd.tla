------------------------------ MODULE CodecInd ------------------------------
(***************************************************************************)
(* The decoder state machine of module Codec over an UNBOUNDED, arbitrary  *)
(* token stream, for an inductive argument with Apalache:                   *)
(*     Init => IndInv        and        IndInv /\ Next => IndInv'          *)
(* Step is Codec!DStep line by line; the input is not a sequence here but  *)
(* the environment: at every step it supplies the token at the current     *)
(* position - "ok" (with an arbitrary count when a count is expected),     *)
(* "bad", "cut", or "eof" when the input has ended.  IndInv contains C08's *)
(* and C11's claims for streams and counts of any size:                    *)
(*   - the decoder holds at most as many tokens as it has read (it never   *)
(*     allocates from a count, however large),                             *)
(*   - it takes at most one step per token read plus four (termination in  *)
(*     time linear in the input),                                          *)
(*   - it ends with "ok" or "FormatError", "ok" only after the two final   *)
(*     scalars, and a non-"ok" token is never accepted.                    *)
(***************************************************************************)
EXTENDS Integers

VARIABLES
  \* @type: Str;
  phase,    \* "head", "lenL", "L", "lenR", "R", "tail"
  \* @type: Int;
  need,     \* tokens still to read in this phase
  \* @type: Int;
  pos,      \* tokens read so far + 1
  \* @type: Int;
  held,     \* tokens held in memory
  \* @type: Str;
  res,      \* "" = running, "ok", "FormatError"
  \* @type: Int;
  steps,    \* steps taken
  \* @type: Int;
  accepted_bad   \* number of non-"ok" tokens that were consumed as if valid (must stay 0)

Init == phase = "head" /\ need = 14 /\ pos = 1 /\ held = 0 /\ res = "" /\ steps = 0 /\ accepted_bad = 0

\* rank of a phase = number of steps that read nothing taken to get there
Rank(p) == IF p \in {"head", "lenL"} THEN (IF p = "head" THEN 0 ELSE 1)
           ELSE IF p \in {"L", "lenR"} THEN (IF p = "L" THEN 1 ELSE 2)
           ELSE IF p = "R" THEN 2 ELSE 3

\* one step of the decoder on the token the environment presents (st: status, val: the count it spells when one is expected)
\* @type: (Str, Int) => Bool;
Step(st, val) ==
  /\ res = ""
  /\ steps' = steps + 1
  /\ IF need = 0
     THEN /\ UNCHANGED << pos, held, accepted_bad >>
          /\ \/ phase = "head" /\ phase' = "lenL" /\ need' = 1 /\ res' = ""
             \/ phase = "L" /\ phase' = "lenR" /\ need' = 1 /\ res' = ""
             \/ phase = "R" /\ phase' = "tail" /\ need' = 2 /\ res' = ""
             \/ phase = "tail" /\ phase' = phase /\ need' = need /\ res' = "ok"
     ELSE IF st # "ok"                                       \* end of input, invalid or cut token
     THEN res' = "FormatError" /\ UNCHANGED << phase, need, pos, held, accepted_bad >>
     ELSE IF phase = "lenL" THEN phase' = "L" /\ need' = val /\ pos' = pos + 1 /\ UNCHANGED << held, res, accepted_bad >>
     ELSE IF phase = "lenR" THEN phase' = "R" /\ need' = val /\ pos' = pos + 1 /\ UNCHANGED << held, res, accepted_bad >>
     ELSE need' = need - 1 /\ pos' = pos + 1 /\ held' = held + 1 /\ UNCHANGED << phase, res, accepted_bad >>

Next == \E st \in {"ok", "bad", "cut", "eof"} : \E val \in Nat : Step(st, val)

IndInv ==
  /\ phase \in {"head", "lenL", "L", "lenR", "R", "tail"}
  /\ res \in {"", "ok", "FormatError"}
  /\ need >= 0 /\ pos >= 1 /\ held >= 0 /\ steps >= 0
  /\ held <= pos - 1                                  \* memory: never more than what was read
  /\ steps <= (pos - 1) + Rank(phase) + (IF res = "" THEN 0 ELSE 1)      \* time: linear in what was read
  \* how much has been read by the time a phase is reached (strengthening: makes the claim about "ok" inductive)
  /\ phase = "head" => (need <= 14 /\ pos - 1 = 14 - need)
  /\ phase = "lenL" => (need = 1 /\ pos = 15)
  /\ phase = "L" => pos >= 16
  /\ phase = "lenR" => (need = 1 /\ pos >= 16)
  /\ phase = "R" => pos >= 17
  /\ phase = "tail" => (need <= 2 /\ pos - 1 >= 16 + (2 - need))
  /\ res = "ok" => (phase = "tail" /\ need = 0 /\ pos >= 19)      \* at least 14 + 2 counts + 2 tokens were read
  /\ accepted_bad = 0
IndInit ==
  /\ phase \in {"head", "lenL", "L", "lenR", "R", "tail"} /\ res \in {"", "ok", "FormatError"}
  /\ need \in Int /\ pos \in Int /\ held \in Int /\ steps \in Int /\ accepted_bad \in Int
  /\ IndInv
=============================================================================
