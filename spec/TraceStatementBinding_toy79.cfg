SPECIFICATION TraceSpec
CONSTANT P = 79
POSTCONDITION TraceAccepted
INVARIANT StatementBinding
CHECK_DEADLOCK FALSE
