SPECIFICATION TraceSpec
CONSTANT P = 7
POSTCONDITION TraceAccepted
INVARIANT PendingClosed
CHECK_DEADLOCK FALSE
