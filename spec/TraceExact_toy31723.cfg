SPECIFICATION TraceSpec
CONSTANT P = 31723
POSTCONDITION TraceAccepted
INVARIANT TraceInv
CHECK_DEADLOCK FALSE
