------------------------------ MODULE MC_Pedersen ---------------------------
(***************************************************************************)
(* C13 on the specification: Commit(v, r) = v*B + r*B~ over F_P, all       *)
(* (v1, r1, v2, r2) and all base pairs for P = 7; linearity laws.  The     *)
(* value-class patterns (0, 1, -1, > 2^64, random; default / swapped /     *)
(* random bases) are printed for the law instances run on the real curves. *)
(***************************************************************************)
EXTENDS R1CS, Json, TLC

VARIABLES v1, r1, v2, r2, k, bases, done
pvars == << v1, r1, v2, r2, k, bases, done >>

PedInit == /\ v1 \in F /\ r1 \in F /\ v2 \in F /\ r2 \in F /\ k \in {0, 1, 3, P - 1}
         /\ bases \in {[B |-> 1, Bb |-> 3], [B |-> 3, Bb |-> 1], [B |-> 5, Bb |-> 2]}
         /\ done = FALSE
PedNext == ~done /\ done' = TRUE /\ UNCHANGED << v1, r1, v2, r2, k, bases >>
PedSpec == PedInit /\ [][PedNext]_pvars

C(v, r) == Commit(bases, v, r)
PedersenLinear ==
  /\ Fadd(C(v1, r1), C(v2, r2)) = C(Fadd(v1, v2), Fadd(r1, r2))
  /\ C(0, 0) = 0
  /\ Fmul(k, C(v1, r1)) = C(Fmul(k, v1), Fmul(k, r1))
  /\ C(v1, r1) = Fadd(Fmul(v1, bases.B), Fmul(r1, bases.Bb))

Class(x) == CASE x = 0 -> "0" [] x = 1 -> "1" [] x = P - 1 -> "-1" [] x = 2 -> "big" [] x = 3 -> "order-2" [] OTHER -> "rand"
BaseClass == CASE bases.B = 1 -> "default" [] bases.B = 3 -> "swapped" [] OTHER -> "random"
Emit == (done /\ k = 3 /\ v2 \in {0, 2, 4} /\ r2 \in {1, 4})
          => PrintT(<< "BEHAVIOUR", ToJson([v1 |-> Class(v1), r1 |-> Class(r1), v2 |-> Class(v2), r2 |-> Class(r2),
                                            k |-> "rand", bases |-> BaseClass]) >>)
=============================================================================
