------------------------------- MODULE MC_Batch -----------------------------
(***************************************************************************)
(* C07 on the specification: the batch check is sum_i alpha_i * residual_i *)
(* with one independent weight per instance.  Over F_7, for every batch    *)
(* pattern of at most MaxN members and every weight vector:                *)
(*   BatchIff         all residuals zero => accepted for every weights;    *)
(*                    otherwise accepted for at most 1/P of the weights    *)
(*   BatchCorrelated  a pair with residuals +d and -d (and nothing else    *)
(*                    invalid) is accepted exactly when the two weights    *)
(*                    coincide - so a shared weight would accept it always *)
(* Patterns (member kinds and circuit sizes) are printed for the replay.   *)
(***************************************************************************)
EXTENDS Field, FiniteSets, Json, TLC

CONSTANTS MaxN, SharedWeight,    \* SharedWeight = TRUE: the (wrong) design with one weight for all instances
          AffineWeight           \* AffineWeight = TRUE: the (wrong) design with weights a + b * position from two draws

VARIABLES pat, sizes, done
bvars == << pat, sizes, done >>

\* "t1", "t2", "t3": the same proof with its final scalar shifted by +d, -2d, +d (a second difference: it cancels under every weighting that
\* is affine in the position, as the pair cancels under a constant one)
Kinds == {"good", "tamper", "badwit", "plus", "minus", "t1", "t2", "t3"}
Count(s, kd) == Cardinality({i \in 1 .. Len(s) : s[i] = kd})
WellFormed(s) == /\ Count(s, "plus") = Count(s, "minus") /\ Count(s, "plus") <= 1
                 /\ Count(s, "t1") = Count(s, "t2") /\ Count(s, "t2") = Count(s, "t3") /\ Count(s, "t1") <= 1
                 /\ Count(s, "t1") = 1 => \E i \in 1 .. Len(s) - 2 : s[i] = "t1" /\ s[i + 1] = "t2" /\ s[i + 2] = "t3"

BInit == /\ \E n \in 1 .. MaxN : pat \in {s \in [1 .. n -> Kinds] : WellFormed(s)}
         /\ sizes = [i \in 1 .. Len(pat) |-> << 1, 3, 0, 5, 2, 8 >>[((i * 2 + Len(pat)) % 6) + 1]]
         /\ done = FALSE
BNext == ~done /\ done' = TRUE /\ UNCHANGED << pat, sizes >>
BSpec == BInit /\ [][BNext]_bvars

N == Len(pat)
\* abstract residuals: unrelated invalid members get unrelated non-zero residuals; the pair gets +d, -d
Res(i) == CASE pat[i] = "good" -> 0 [] pat[i] = "tamper" -> 1 + (i % 5) [] pat[i] = "badwit" -> 2 + (i % 4)
            [] pat[i] = "plus" -> 3 [] pat[i] = "minus" -> P - 3
            [] pat[i] = "t1" -> 3 [] pat[i] = "t2" -> P - 6 [] pat[i] = "t3" -> 3
Weights == IF SharedWeight THEN {[i \in 1 .. N |-> a] : a \in F}
           ELSE IF AffineWeight THEN {[i \in 1 .. N |-> Fadd(a, Fmul(b, i % P))] : a \in F, b \in F}
           ELSE [1 .. N -> F]
Accept(al) == SumSeq([i \in 1 .. N |-> Fmul(al[i], Res(i))]) = 0
AllGood == \A i \in 1 .. N : pat[i] = "good"

BatchIff ==
  /\ AllGood => \A al \in Weights : Accept(al)
  /\ ~AllGood => Cardinality({al \in Weights : Accept(al)}) * P <= Cardinality(Weights)
OnlyPairBad == Count(pat, "plus") = 1 /\ \A i \in 1 .. N : pat[i] \in {"good", "plus", "minus"}
BatchCorrelated ==
  OnlyPairBad => LET ip == CHOOSE i \in 1 .. N : pat[i] = "plus"  im == CHOOSE i \in 1 .. N : pat[i] = "minus"
                 IN \A al \in Weights : Accept(al) <=> al[ip] = al[im]

BInv == done => (BatchIff /\ BatchCorrelated)
Emit == done => PrintT(<< "BEHAVIOUR", ToJson([kinds |-> pat, sizes |-> sizes, expect |-> IF AllGood THEN "ok" ELSE "reject"]) >>)
=============================================================================
