SPECIFICATION TraceSpec
CONSTANT P = 31723
POSTCONDITION TraceAccepted
INVARIANT IdealCompleteness
INVARIANT IdealSoundness
CHECK_DEADLOCK FALSE
