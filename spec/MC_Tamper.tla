------------------------------ MODULE MC_Tamper -----------------------------
(***************************************************************************)
(* C04 on the specification.  For statements with n = 0..MaxN gates and    *)
(* arbitrary (sampled) proof values and non-zero challenges:               *)
(*   EveryFieldWeighted  changing any single proof field - a point by any  *)
(*                       non-zero offset, a scalar by 1 - changes the      *)
(*                       combined residual under unchanged challenges: no  *)
(*                       field has a zero or missing weight                *)
(*   EveryFieldAbsorbed  every field except the final scalars a, b is      *)
(*                       absorbed into the verifier's transcript before    *)
(*                       the next challenge is drawn                       *)
(* and one tamper behaviour per (shape, field, kind) is printed.           *)
(***************************************************************************)
EXTENDS R1CS, Json, TLC

CONSTANTS MaxN

VARIABLES n, pf, ch, tam, done
tvars == << n, pf, ch, tam, done >>

NZ == 1 .. (P - 1)
K(nn) == Lg(Pad2(nn))
PointFields == {"AI1", "AO1", "S1", "AI2", "AO2", "S2", "T1", "T3", "T4", "T5", "T6"}
ScalarFields == {"tx", "txb", "eb", "a", "b"}
RoundFields(nn) == {<<"L", j>> : j \in 1 .. K(nn)} \cup {<<"R", j>> : j \in 1 .. K(nn)}

Tampers(nn) ==
  {[f |-> f, how |-> h] : f \in PointFields, h \in {"addpt", "neg"}}
  \cup {[f |-> f, how |-> "add"] : f \in ScalarFields} \cup {[f |-> f, how |-> "neg"] : f \in {"a", "b", "txb"}}
  \cup {[f |-> "a", how |-> "swap", g |-> "b"], [f |-> "tx", how |-> "swap", g |-> "txb"], [f |-> "AI1", how |-> "swap", g |-> "AO1"],
        [f |-> "T1", how |-> "swap", g |-> "T3"], [f |-> "S1", how |-> "swap", g |-> "T6"], [f |-> "AI1", how |-> "swap", g |-> "AI2"]}
  \cup (IF K(nn) >= 1 THEN {[f |-> "L1", how |-> "addpt"], [f |-> "R1", how |-> "neg"], [f |-> "L1", how |-> "swap", g |-> "R1"],
                            [f |-> "L", how |-> "droplast"], [f |-> "R", how |-> "duplast"], [f |-> "L", how |-> "push"]} ELSE {})
  \cup (IF K(nn) >= 2 THEN {[f |-> "L", how |-> "swap01"], [f |-> "R", how |-> "swap01"], [f |-> "L2", how |-> "swap", g |-> "R1"]} ELSE {})
  \cup {[f |-> "L", how |-> "push"], [f |-> "R", how |-> "push"]}

TInit ==
  /\ n \in 0 .. MaxN
  /\ tam \in Tampers(n)
  /\ pf = [AI1 |-> RandomElement(NZ), AO1 |-> RandomElement(NZ), S1 |-> RandomElement(NZ), AI2 |-> RandomElement(F), AO2 |-> RandomElement(F),
           S2 |-> RandomElement(F), T1 |-> RandomElement(NZ), T3 |-> RandomElement(NZ), T4 |-> RandomElement(NZ), T5 |-> RandomElement(NZ),
           T6 |-> RandomElement(NZ), tx |-> RandomElement(F), txb |-> RandomElement(F), eb |-> RandomElement(F),
           a |-> RandomElement(F), b |-> RandomElement(F),
           L |-> [j \in 1 .. K(n) |-> RandomElement(NZ)], R |-> [j \in 1 .. K(n) |-> RandomElement(NZ)]]
  /\ ch = [j \in 1 .. 6 + K(n) |-> RandomElement(NZ)]
  /\ done = FALSE
TNext == ~done /\ done' = TRUE /\ UNCHANGED << n, pf, ch, tam >>
TSpec == TInit /\ [][TNext]_tvars

Env == [B |-> 1, Bb |-> 7919, G |-> [i \in 1 .. 16 |-> 1000 + 37 * i], H |-> [i \in 1 .. 16 |-> 5000 + 91 * i]]
\* a statement with n gates, one commitment and constraints touching every wire kind
St == [nv |-> n, V |-> << 4242 >>, pending |-> NoPending, ndefer |-> 0,
       cons |-> << << <<"V", 0, 3>>, <<"1", 0, 5>> >> >>
                 \o [i \in 1 .. n |-> << <<"L", i - 1, 2>>, <<"R", i - 1, 7>>, <<"O", i - 1, 11>>, <<"1", 0, i>> >>]]
MegaR(p, r) == VerifierAlgebra(Env, St, n, p, ch[1], ch[2], ch[3], ch[4], ch[5], [j \in 1 .. K(n) |-> ch[5 + j]], r).mega
Mega(p) == MegaR(p, ch[6 + K(n)])
\* the same under the next value of the combiner r (a weight that is a difference of two challenges vanishes for one value of r only)
MegaAlt(p) == MegaR(p, Fadd(ch[6 + K(n)], 1))

EveryFieldWeighted ==
  /\ \A f \in PointFields : Mega([pf EXCEPT ![f] = Fadd(@, 1)]) # Mega(pf)
  /\ \A f \in {"txb", "eb"} : Mega([pf EXCEPT ![f] = Fadd(@, 1)]) # Mega(pf)
  \* t_x is weighted w - r: zero when the sampled w and r coincide (probability 1/P) - then it is not zero under r + 1
  /\ Mega([pf EXCEPT !.tx = Fadd(@, 1)]) # Mega(pf) \/ MegaAlt([pf EXCEPT !.tx = Fadd(@, 1)]) # MegaAlt(pf)
  /\ \A j \in 1 .. K(n) : /\ Mega([pf EXCEPT !.L[j] = Fadd(@, 1)]) # Mega(pf)
                         /\ Mega([pf EXCEPT !.R[j] = Fadd(@, 1)]) # Mega(pf)
  \* a and b enter through the generator scalars: their weight is a group element, non-zero except with probability 1/P
  /\ Mega([pf EXCEPT !.a = Fadd(@, 1)]) # Mega(pf) \/ Mega([pf EXCEPT !.a = Fadd(@, 2)]) # Mega(pf)
  /\ Mega([pf EXCEPT !.b = Fadd(@, 1)]) # Mega(pf) \/ Mega([pf EXCEPT !.b = Fadd(@, 2)]) # Mega(pf)

\* absorbed before the next challenge: in the verifier's operation list every field value precedes the first later challenge
VOps == LET r1 == VerifyP1(St, pf) IN r1.ops \o VerifyP2(Env, 16, r1.st, r1.n1, pf, ch).ops
\* positions of the appends with a label / of the challenges with a label
Pos(ops, kind, label) == {i \in 1 .. Len(ops) : ops[i].o = kind /\ ops[i].l = label}
AbsorbedBefore(ops, label, chal) == \E i \in Pos(ops, "A", label) : \E j \in Pos(ops, "C", chal) : i < j
EveryFieldAbsorbed ==
  LET ops == VOps IN
  /\ \A l \in {"A_I1", "A_O1", "S1", "A_I2", "A_O2", "S2", "m"} : AbsorbedBefore(ops, l, "y") /\ AbsorbedBefore(ops, l, "z")
  /\ \A l \in {"T_1", "T_3", "T_4", "T_5", "T_6"} : AbsorbedBefore(ops, l, "u") /\ AbsorbedBefore(ops, l, "x")
  /\ \A l \in {"t_x", "t_x_blinding", "e_blinding"} : AbsorbedBefore(ops, l, "w")
  /\ K(n) >= 1 => (AbsorbedBefore(ops, "L", "u") /\ AbsorbedBefore(ops, "R", "u") /\ AbsorbedBefore(ops, "n", "r"))

TInv == done => (EveryFieldWeighted /\ EveryFieldAbsorbed)
Emit == done => PrintT(<< "BEHAVIOUR", ToJson([n |-> n, tam |-> tam]) >>)
=============================================================================
