SPECIFICATION TraceSpec
CONSTANT P = 79
POSTCONDITION TraceAccepted
INVARIANT RoleSync
CHECK_DEADLOCK FALSE
