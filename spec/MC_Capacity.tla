----------------------------- MODULE MC_Capacity ----------------------------
(***************************************************************************)
(* C17: the full grid (first-phase gates, second-phase gates, prover       *)
(* capacity, verifier capacity).  ThresholdExact is checked on the model's *)
(* guards (the very operators ProveP1/ProveP2/VerifyP2 use); each grid     *)
(* point is printed as a behaviour and replayed on the real code.          *)
(***************************************************************************)
EXTENDS R1CS, Json, TLC

CONSTANTS MaxN1, MaxN2, MaxCap

VARIABLES pt, done
cvars == << pt, done >>

\* st: how the gates come about - "full": every gate by allocate_multiplier; "h1" / "h2": the last gate of the first / second phase
\* is a single allocation left half open (it counts as a gate all the same: the threshold speaks of the gate count only)
Grid == {g \in [n1 : 0 .. MaxN1, n2 : 0 .. MaxN2, cp : 0 .. MaxCap, cv : 0 .. MaxCap, st : {"full", "h1", "h2"}] :
           /\ g.st = "h1" => g.n1 >= 1
           /\ g.st = "h2" => g.n2 >= 1
           /\ g.st # "full" => g.cv = 0 \/ g.cp = 0}       \* (half-open shapes: the prover's and the verifier's axis separately)

CInit == pt \in Grid /\ done = FALSE
CNext == ~done /\ done' = TRUE /\ UNCHANGED pt
CSpec == CInit /\ [][CNext]_cvars

ExpectP(g) == IF ProverCapError1(g.cp, g.n1) \/ CapError2(g.cp, g.n1 + g.n2) THEN "InvalidGeneratorsLength" ELSE "ok"
ExpectV(g) == IF CapError2(g.cv, g.n1 + g.n2) THEN "InvalidGeneratorsLength" ELSE "ok"

\* error exactly when the capacity is below the gate count padded to a power of two (zero gates count as one)
RECURSIVE P2(_)
P2(k) == IF k = 0 THEN 1 ELSE 2 * P2(k - 1)
IsPaddedSize(n, p) == \E k \in 0 .. 6 : p = P2(k) /\ p >= n /\ (k = 0 \/ P2(k - 1) < n)
ThresholdExact ==
  LET n == pt.n1 + pt.n2
      thr == CHOOSE p \in 1 .. 64 : IsPaddedSize(n, p)
  IN /\ (ExpectP(pt) = "InvalidGeneratorsLength") <=> (pt.cp < thr)
     /\ (ExpectV(pt) = "InvalidGeneratorsLength") <=> (pt.cv < thr)
     /\ thr = Pad2(n) /\ (n = 0 => thr = 1)

Mulop == [op |-> "allocmul", l |-> 2, r |-> 3]
Half == [op |-> "alloc", a |-> 4]
GatesOf(n, half) == [i \in 1 .. n |-> IF half /\ i = n THEN Half ELSE Mulop]
Behaviour(g) ==
  [p |-> [label |-> "verif",
          ops |-> GatesOf(g.n1, g.st = "h1") \o (IF g.n2 > 0 THEN << [op |-> "defer", cb |-> 0] >> ELSE << >>),
          cbs |-> IF g.n2 > 0 THEN << GatesOf(g.n2, g.st = "h2") >> ELSE << >>,
          cap |-> g.cp],
   vcap |-> g.cv, pad |-> Pad2(g.n1 + g.n2), n1 |-> g.n1, n2 |-> g.n2, st |-> g.st,
   expect_p |-> ExpectP(g), expect_v |-> ExpectV(g)]

Emit == done => PrintT(<< "BEHAVIOUR", ToJson(Behaviour(pt)) >>)
=============================================================================
