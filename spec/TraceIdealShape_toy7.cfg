SPECIFICATION TraceSpec
CONSTANT P = 7
POSTCONDITION TraceAccepted
INVARIANT IdealShape
CHECK_DEADLOCK FALSE
