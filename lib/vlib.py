"""Shared machinery of the checks: build, TLC runs, trace validation, behaviour replay, evidence."""
import json, os, re, subprocess, sys, time, hashlib, shutil, concurrent.futures as cf

VERIF = os.path.dirname(os.path.dirname(os.path.abspath(__file__)))
SPEC = os.path.join(VERIF, "spec")
HARNESS = os.path.join(VERIF, "harness")
BIN = os.path.join(HARNESS, "target", "debug", "bpverif")
REAL_CURVES = ["secq256k1", "zorro", "curve25519"]
TOY_CURVES = ["toy7", "toy79", "toy31723"]
TOY_P = {"toy7": 7, "toy79": 79, "toy31723": 31723}


class ToolError(Exception):
    pass


def log(*a):
    print(*a, file=sys.stderr, flush=True)


class Check:
    """One run of one property's check: collects coverage numbers, violations, known findings."""

    def __init__(self, pid, tier=None, seed=None, replay_mode=False):
        self.pid = pid
        self.replay_mode = replay_mode
        self.tier = tier or os.environ.get("VERIF_TIER") or "quick"
        if self.tier not in ("quick", "thorough"):
            self.tier = "quick"
        try:
            self.seed = int(seed if seed is not None else os.environ.get("VERIF_SEED", "1"))
        except ValueError:
            self.seed = 1
        self.t0 = time.time()
        self.work = os.path.join(VERIF, "work", pid)
        shutil.rmtree(self.work, ignore_errors=True)
        os.makedirs(self.work, exist_ok=True)
        self.replays = os.path.join(VERIF, "replays", pid)
        if replay_mode:
            # re-running one recorded case: the recorded replay files stay where they are (the case being replayed is one of them);
            # what this run reports goes to a directory of its own, and the evidence file of the last full run is left alone
            self.replays = os.path.join(self.replays, "replayed")
        shutil.rmtree(self.replays, ignore_errors=True)
        os.makedirs(self.replays, exist_ok=True)
        self.cov = {"states": 0, "transitions": 0, "traces_validated_against_impl": 0, "samples": [],
                    "evaluations": 0, "distinct_nontrivial": 0, "rule": "", "tlc_runs": [], "replayed_behaviours": 0}
        self.assumptions = []
        self.violations = []
        self.known = []
        self.distinct = set()
        self.findings = load_known_findings()

    @property
    def quick(self):
        return self.tier == "quick"

    def path(self, name):
        return os.path.join(self.work, name)

    # ---- bookkeeping -------------------------------------------------------------------------
    def count_case(self, case, nontrivial=True):
        self.cov["evaluations"] += 1
        if nontrivial:
            self.distinct.add(hashlib.sha1(json.dumps(case, sort_keys=True).encode()).hexdigest())

    def sample(self, s, limit=4):
        if len(self.cov["samples"]) < limit:
            self.cov["samples"].append(s)

    def violation(self, case_name, payload, what=""):
        """Record a violation unless it is a listed known finding."""
        for f in self.findings:
            if f.get("property") == self.pid and f.get("status") == "known" and finding_matches(f, payload):
                line = "KNOWN-FINDING: property=%s %s" % (self.pid, f.get("what", f.get("id", "")))
                if line not in self.known:
                    self.known.append(line)
                    print(line, flush=True)
                return
        safe = re.sub(r"[^A-Za-z0-9_.-]", "_", case_name)[:80]
        path = os.path.join(self.replays, safe + ".json")
        with open(path, "w") as f:
            json.dump({"property": self.pid, "case": case_name, "what": what, "payload": payload}, f, indent=1)
        self.violations.append(path)
        print("VIOLATION property=%s replay=%s" % (self.pid, path), flush=True)
        if what:
            log("  ", what[:600])

    def finish(self, rule, assumptions=(), extra=None):
        self.cov["rule"] = rule
        self.cov["distinct_nontrivial"] = len(self.distinct)
        if self.cov["states"] == 0:
            # model-checking level requires states/transitions >= 1; absent TLC runs fall back to generic keys
            self.cov.pop("states")
            self.cov.pop("transitions")
        if extra:
            self.cov.update(extra)
        ev = {"property_id": self.pid, "tier": self.tier, "seed": self.seed, "level": "model_checking",
              "coverage": self.cov, "assumptions": list(self.assumptions) + list(assumptions),
              "wall_s": round(time.time() - self.t0, 2), "violations": len(self.violations),
              "known_findings": self.known}
        os.makedirs(os.path.join(VERIF, "evidence"), exist_ok=True)
        # (VERIF_NO_EVIDENCE: runs against a deliberately modified repository - bin/try_mutant, the matrices - do not overwrite the evidence
        #  of the last run on the unchanged tree)
        if not self.replay_mode and not os.environ.get("VERIF_NO_EVIDENCE"):
            with open(os.path.join(VERIF, "evidence", self.pid + ".json"), "w") as f:
                json.dump(ev, f, indent=1)
        shutil.rmtree(self.work, ignore_errors=True)
        log("%s: %s tier, %.1fs, %d violation(s), %d known finding(s)" % (self.pid, self.tier, ev["wall_s"], len(self.violations), len(self.known)))
        sys.exit(1 if self.violations else 0)


def load_known_findings():
    p = os.path.join(VERIF, "known_findings.json")
    if os.path.exists(p):
        return json.load(open(p))
    return []


def finding_matches(f, payload):
    m = f.get("match", {})
    flat = json.dumps(payload, sort_keys=True)
    return all((k in payload and payload[k] == v) or ('"%s": %s' % (k, json.dumps(v)) in flat) for k, v in m.items())


# ---- build -----------------------------------------------------------------------------------
_built = False


def build():
    """Build the harness against /repo's current working tree (hooks feature on)."""
    global _built
    if _built:
        return
    env = dict(os.environ, CARGO_NET_OFFLINE="true")
    r = subprocess.run(["cargo", "build", "--offline"], cwd=HARNESS, env=env, stdout=subprocess.PIPE, stderr=subprocess.STDOUT, text=True)
    if r.returncode != 0:
        log(r.stdout[-4000:])
        raise ToolError("harness build failed")
    _built = True


class Aborted(ToolError):
    """the harness process was killed by a signal (abort on allocation failure, stack overflow) while working on `case` (hex input)"""

    def __init__(self, msg, case, stderr):
        super().__init__(msg)
        self.case, self.stderr = case, stderr


import threading, itertools
_wal_n = itertools.count(1)
_wal_lock = threading.Lock()


def harness(*args, timeout=3600, check=True):
    # write-ahead file: the input the harness was about to hand to the decoder when the process died
    with _wal_lock:
        k = next(_wal_n)
    wal = os.path.join(VERIF, "work", "wal_%d_%d.hex" % (os.getpid(), k))
    env = dict(os.environ, VERIF_WAL=wal)
    try:
        r = subprocess.run([BIN] + [str(a) for a in args], stdout=subprocess.PIPE, stderr=subprocess.PIPE, text=True, timeout=timeout, env=env)
        case = open(wal).read() if os.path.exists(wal) else None
    finally:
        if os.path.exists(wal):
            os.remove(wal)
    if r.returncode < 0 and case is not None:
        raise Aborted("harness %s died with signal %d" % (args[0], -r.returncode), case, r.stderr[-600:])
    if check and r.returncode != 0:
        raise ToolError("harness %s failed (%d): %s" % (args[0], r.returncode, r.stderr[-2000:]))
    return r


# ---- TLC -------------------------------------------------------------------------------------
def tlc(module, cfg, metadir, workers=8, env=None, timeout=1800, extra=(), coverage=False, simulate=None, seed=None):
    e = dict(os.environ)
    # trace validators run many at a time (one worker each): bound their heaps; model-checking runs get more
    e["JAVA_TOOL_OPTIONS"] = "-Xss1g -Xmx3g" if workers == 1 else "-Xss1g -Xmx12g"
    tmpd = os.path.join(os.path.dirname(os.path.abspath(metadir)), "jtmp")     # TLC leaves an empty tlc-* directory per run in java.io.tmpdir
    os.makedirs(tmpd, exist_ok=True)
    e["JAVA_TOOL_OPTIONS"] += " -Djava.io.tmpdir=" + tmpd
    if env:
        e.update({k: str(v) for k, v in env.items()})
    cmd = ["timeout", str(timeout), "tlc", "-workers", str(workers), "-metadir", metadir, "-cleanup", "-noGenerateSpecTE",
           "-config", cfg]
    if coverage:
        cmd += ["-coverage", "1"]
    if seed is not None:
        cmd += ["-seed", str(seed)]
    if simulate:
        cmd += ["-simulate", simulate]
    cmd += list(extra) + [module]
    r = subprocess.run(cmd, cwd=SPEC, env=e, stdout=subprocess.PIPE, stderr=subprocess.STDOUT, text=True)
    shutil.rmtree(metadir, ignore_errors=True)
    out = r.stdout
    res = {"rc": r.returncode, "out": out, "states": 0, "distinct": 0, "error": None, "timeout": r.returncode == 124}
    m = re.search(r"(\d+) states generated, (\d+) distinct states found", out)
    if m:
        res["states"], res["distinct"] = int(m.group(1)), int(m.group(2))
    m = re.search(r"Error: (.*)", out)
    if m:
        res["error"] = m.group(1)
    m = re.search(r"depth of the complete state graph search is (\d+)", out)
    res["depth"] = int(m.group(1)) if m else 0
    return res


def tlc_mc(chk, module, cfg, workers=8, timeout=1800, env=None, expect_ok=True):
    """Model-check a bounded instance of the specification; its violation is a tool error (the model is wrong), not a finding about the code."""
    t = time.time()
    r = tlc(module, cfg, chk.path("mc_" + re.sub(r"\W", "_", cfg)), workers=workers, timeout=timeout, env=env)
    if r["timeout"]:
        raise ToolError("TLC timed out on %s" % cfg)
    if expect_ok and (r["error"] or r["states"] == 0):
        log(r["out"][-3000:])
        raise ToolError("TLC reports an error in the specification itself (%s / %s): %s" % (module, cfg, r["error"]))
    chk.cov["states"] += r["distinct"]
    chk.cov["transitions"] += r["states"]
    chk.cov["tlc_runs"].append({"module": module, "cfg": cfg, "states_generated": r["states"], "distinct_states": r["distinct"],
                                "wall_s": round(time.time() - t, 1)})
    return r


def behaviours_from(out):
    """Lines printed by `PrintT(<<"BEHAVIOUR", ToJson(..)>>)`; TLC wraps long tuples, so parse the tuple text."""
    res = []
    for m in re.finditer(r'<<\s*"BEHAVIOUR",\s*("(?:[^"\\]|\\.)*")\s*>>', out, re.S):
        res.append(json.loads(json.loads(m.group(1))))
    return res


# ---- trace validation (implementation -> specification) -------------------------------------------
def split_runs(events):
    runs, cur = [], []
    for e in events:
        if e.get("ev") == "setup" and cur:
            runs.append(cur)
            cur = []
        cur.append(e)
    if cur:
        runs.append(cur)
    return runs


def _validate_file(args):
    path, curve, flags, metadir, timeout, cfgname = args
    env = {"TRACE": path}
    env.update(flags)
    r = tlc("Trace.tla", "%s_%s.cfg" % (cfgname, curve), metadir, workers=1, env=env, timeout=timeout)
    return path, r


LENIENT = {"CMP_H": "0", "CMP_O": "0", "CMP_P": "0", "CMP_E": "0", "CMP_V": "0", "CMP_G": "0", "CMP_C": "0"}


def flags(**on):
    """comparison flags for Trace.tla: everything off except the named ones, e.g. flags(H=1, V=1)"""
    f = dict(LENIENT)
    for k, v in on.items():
        f["CMP_" + k] = "1" if v else "0"
    return f


def validate_traces(chk, trace_file, curve, flags=None, jobs=12, max_rejects=5, timeout=1500, cfgname="Trace", tag=""):
    """Validate a recorded NDJSON trace (many runs) against Trace.tla. Returns (runs_accepted, rejects).
    A rejected run is cut out and the rest is validated again, so that one rejection does not hide others."""
    flags = flags or {}
    events = [json.loads(l) for l in open(trace_file) if l.strip()]
    runs = split_runs(events)
    if not runs:
        raise ToolError("empty trace %s" % trace_file)
    nchunks = max(1, min(jobs, len(runs) // 20 or 1))
    chunks = [runs[i::nchunks] for i in range(nchunks)]
    rejects, accepted = [], 0
    pending = []
    for i, ch in enumerate(chunks):
        pending.append((i, ch))
    rnd = 0
    while pending and rnd <= max_rejects:
        jobsargs = []
        for i, ch in pending:
            p = chk.path("chunk%s_%s_%d_%d.ndjson" % (tag, curve, i, rnd))
            with open(p, "w") as f:
                for run in ch:
                    for e in run:
                        f.write(json.dumps(e) + "\n")
            jobsargs.append((p, curve, flags, chk.path("tv%s_%s_%d_%d" % (tag, curve, i, rnd)), timeout, cfgname))
        nxt = []
        with cf.ThreadPoolExecutor(max_workers=jobs) as ex:
            results = list(ex.map(_validate_file, jobsargs))
        for (i, ch), (p, r) in zip(pending, results):
            os.remove(p)
            nev = sum(len(run) for run in ch)
            chk.cov["transitions"] += r["states"]
            if r["timeout"]:
                raise ToolError("TLC timed out validating a trace chunk")
            if r["error"] is None and r["depth"] == nev + 1:
                accepted += len(ch)
                continue
            # locate the offending run
            m = re.search(r'"first unmatched event",\s*(\d+)', r["out"])
            inv = "Invariant" in (r["error"] or "")
            if m:
                idx = int(m.group(1))
            elif inv:
                # invariant violated in the state reached after consuming (depth-1) events
                idx = max(1, r["depth"] - 1)
            else:
                log(r["out"][-3000:])
                raise ToolError("TLC failed while validating a trace: %s" % r["error"])
            k, run_i = 0, None
            for j, run in enumerate(ch):
                if k < idx <= k + len(run):
                    run_i = j
                    break
                k += len(run)
            if run_i is None:
                raise ToolError("cannot locate rejected event %d" % idx)
            bad = ch[run_i]
            rejects.append({"run": bad, "event_index_in_run": idx - k, "event": bad[idx - k - 1],
                            "reason": ("invariant " + r["error"]) if inv else "no action of the specification explains this event",
                            "flags": flags, "curve": curve, "cfg": cfgname})
            accepted += run_i          # runs before it were consumed
            rest = ch[run_i + 1:]
            if rest:
                nxt.append((i, rest))
        pending = nxt
        rnd += 1
    chk.cov["traces_validated_against_impl"] += accepted
    return accepted, rejects


def read_ndjson(path):
    return [json.loads(l) for l in open(path) if l.strip()]


def write_ndjson(path, rows):
    with open(path, "w") as f:
        for r in rows:
            f.write(json.dumps(r) + "\n")


def record(chk, curve, programs, name):
    """Run programs through the real code on `curve`, recording a trace. Returns (trace_path, summaries)."""
    pp = chk.path(name + ".progs.ndjson")
    tp = chk.path(name + ".trace.ndjson")
    sp = chk.path(name + ".sum.json")
    write_ndjson(pp, programs)
    harness("record", "--curve", curve, "--programs", pp, "--out", tp, "--summary", sp)
    return tp, json.load(open(sp))


def replay(chk, curve, programs, name, jobs=16):
    """Replay behaviours (programs with expectations) on the real code; returns result rows."""
    n = max(1, min(jobs, len(programs) // 50 or 1))
    parts = [programs[i::n] for i in range(n)]

    def one(i):
        pp = chk.path("%s.%s.%d.progs.ndjson" % (name, curve, i))
        op = chk.path("%s.%s.%d.res.ndjson" % (name, curve, i))
        write_ndjson(pp, parts[i])
        harness("replay", "--curve", curve, "--programs", pp, "--out", op)
        rows = read_ndjson(op)
        os.remove(pp)
        os.remove(op)
        return rows

    with cf.ThreadPoolExecutor(max_workers=jobs) as ex:
        res = list(ex.map(one, range(n)))
    out = []
    for i in range(n):
        for prog, row in zip(parts[i], res[i]):
            row["program"] = prog
            if curve in TOY_CURVES:
                # on a toy curve a zero challenge (probability 1/P) makes inverse().unwrap() panic: a degenerate event, not a finding;
                # panics are policed on the 256-bit curves
                row["bad"] = [b for b in row["bad"] if "panic" not in b]
            out.append(row)
    chk.cov["replayed_behaviours"] += len(out)
    return out


def genprogs(chk, seed, n, modulus, kind, name):
    p = chk.path(name + ".gen.ndjson")
    harness("genprogs", "--seed", seed, "--n", n, "--modulus", modulus, "--kind", kind, "--out", p)
    return read_ndjson(p)


def main_wrapper(fn):
    try:
        fn()
    except ToolError as e:
        log("TOOL ERROR:", e)
        sys.exit(2)
    except subprocess.TimeoutExpired as e:
        log("TOOL ERROR: timeout", e)
        sys.exit(2)


def builder_cfg(chk, name, maxcalls, gen, rich, maxdev=1):
    p = chk.path(name + ".cfg")
    with open(p, "w") as f:
        f.write("SPECIFICATION MCSpec\nCONSTANTS\n  P = 31723\n  MaxCalls = %d\n  GEN = %s\n  Rich = %s\n  MaxDev = %d\n"
                % (maxcalls, "TRUE" if gen else "FALSE", "TRUE" if rich else "FALSE", maxdev))
        f.write("INVARIANT MCInv\nINVARIANT Emit\nCHECK_DEADLOCK FALSE\n")
        if not gen:
            f.write("VIEW View\n")
        else:
            f.write("PROPERTY AbsStep\n")       # refinement of the Apalache-proved counter abstraction (needs the full state, no VIEW)
    return p


def generate_behaviours(chk, maxcalls, rich, name="gen", maxdev=1):
    """TLC enumerates MC_Builder to the given depth and prints one behaviour (program + expectations) per state."""
    r = tlc_mc(chk, "MC_Builder.tla", builder_cfg(chk, name, maxcalls, True, rich, maxdev), workers=8, timeout=3000)
    behs = behaviours_from(r["out"])
    if not behs:
        raise ToolError("no behaviours generated")
    for i, b in enumerate(behs):
        b["id"] = "%s-%d" % (name, i)
        b["seed"] = chk.seed * 1000003 + i
    return behs


def report_replay(chk, rows, what):
    n = 0
    for r in rows:
        chk.count_case([r["curve"], r["program"].get("p"), r["program"].get("v"), r["program"].get("tamper")],
                       nontrivial=len(r["program"]["p"]["ops"]) > 0)
        if r["bad"]:
            n += 1
            chk.violation("%s-%s-%s" % (what, r["curve"], r["program"].get("id", "")),
                          {"curve": r["curve"], "program": r["program"],
                           "observed": {k: r[k] for k in ("pres", "vres", "decode")}, "mismatch": r["bad"]},
                          "; ".join(r["bad"]))
    return n


def report_rejects(chk, rejects, what, progs=None):
    byid = {p.get("id"): p for p in (progs or [])}
    for j, rj in enumerate(rejects):
        rid = rj["run"][0].get("id", "run")
        if rid in byid:
            rj = dict(rj, program=byid[rid])
        chk.violation("%s-%s-%s" % (what, rj["curve"], rid),
                      {"curve": rj["curve"], "flags": rj["flags"], "cfg": rj.get("cfg", "Trace"), "reason": rj["reason"],
                       "event_index_in_run": rj["event_index_in_run"], "event": rj["event"], "trace": rj["run"],
                       **({"program": rj["program"]} if "program" in rj else {})},
                      "%s: event %d (%s) of run %s: %s" % (rj["curve"], rj["event_index_in_run"], rj["event"].get("ev"), rid, rj["reason"]))


def replay_generic(chk, case, what="replay"):
    """Re-run a recorded violation that carries a trace (re-validated against the specification under the recorded flags and cfg) or a
    batch job. Returns True when the case was of one of these kinds."""
    if "trace" in case and isinstance(case["trace"], list):
        tp = chk.path("replay.ndjson")
        curve = case.get("curve", "toy31723")
        if "program" in case and curve in TOY_CURVES:
            # run the recorded program again on the current tree and validate the fresh trace
            tp, _ = record(chk, curve, [case["program"]], "replay")
        else:
            write_ndjson(tp, case["trace"])
        cfgcurve = curve if curve in TOY_CURVES else "tables"
        acc, rej = validate_traces(chk, tp, cfgcurve, flags=case.get("flags"), cfgname=case.get("cfg", "Trace"))
        for rj in rej:
            rj["curve"] = curve
        report_rejects(chk, rej, what)
        return True
    if "job" in case and isinstance(case["job"], dict) and "members" in case["job"]:
        jp, op = chk.path("rj.in"), chk.path("rj.out")
        write_ndjson(jp, [case["job"]])
        harness("batch", "--curve", case["curve"], "--jobs", jp, "--out", op)
        for row in read_ndjson(op):
            exp = case["job"].get("expect", "")
            bad = list(row["bad"])
            if exp == "reject" and row["batch"] == "ok":
                bad.append("batch accepted")
            if exp in ("ok", "InvalidGeneratorsLength") and row["batch"] != exp:
                bad.append("batch returned %s, expected %s" % (row["batch"], exp))
            if row["batch"].startswith("panic"):
                bad.append(row["batch"])
            if bad:
                chk.violation("%s-batch" % what, dict(case, batch=row["batch"], bad=bad), "; ".join(bad))
        return True
    return False


def toy_traces(chk, curve, kind, n, flags, what, cfgname="Trace", name=None, progs=None, seed_off=0):
    """generate (or take) programs, run them on a toy curve, validate the trace against the specification"""
    name = name or "%s_%s" % (kind, curve)
    if progs is None:
        progs = genprogs(chk, chk.seed + seed_off, n, TOY_P[curve], kind, name)
    tp, sums = record(chk, curve, progs, name)
    acc, rej = validate_traces(chk, tp, curve, flags=flags, cfgname=cfgname)
    report_rejects(chk, rej, what, progs=progs)
    for p, s_ in zip(progs, sums):
        chk.count_case([curve, p["p"], p.get("v"), p.get("tamper")], nontrivial=len(p["p"]["ops"]) > 0)
    if progs:
        chk.sample({"curve": curve, "program": progs[min(3, len(progs) - 1)], "outcome": sums[min(3, len(sums) - 1)]})
    return progs, sums, rej


def session_traces(chk, curve, n, fl, what, seed_off=0):
    """Library sessions on a toy curve: generator tables with a history on both sides (new, increase_capacity, clone, serialise +
    deserialise, aggregated views), prove, to_bytes, tampering on the proof object or on the bytes, from_bytes, verify - validated
    against Library.tla through Trace.tla (TraceGens, TraceEncode, TraceWireBytes, TraceDecodeB, GensBound)."""
    name = "session_%s" % curve
    progs = genprogs(chk, chk.seed + seed_off, n, TOY_P[curve], "session", name)
    tp, sums = record(chk, curve, progs, name)
    acc, rej = validate_traces(chk, tp, curve, flags=fl)
    report_rejects(chk, rej, what, progs=progs)
    for p in progs:
        chk.count_case([curve, p["p"].get("gh"), p["v"].get("gh"), p.get("btamper"), p.get("tamper"), p["p"]["ops"]])
    chk.sample({"curve": curve, "session": {"prover_table": progs[0]["p"].get("gh"), "verifier_table": progs[0]["v"].get("gh"),
                                            "byte_tamper": progs[0].get("btamper")}, "outcome": sums[0]})
    return progs, sums, rej


def table_lives(chk, curve, n, maxcap, maxparties, maxops, what, seed_off=0):
    """Table-only traces on any curve (generator values as encodings): random lives of two tables per run - new, increase_capacity, clone,
    serialise + deserialise, aggregated views - validated against Library.tla (every stored table and view is a window of ONE generator
    function for the whole trace file)."""
    tp = chk.path("life_%s.ndjson" % curve)
    harness("genslife", "--curve", curve, "--seed", chk.seed + seed_off, "--n", n, "--maxcap", maxcap, "--maxparties", maxparties, "--maxops", maxops, "--out", tp)
    acc, rej = validate_traces(chk, tp, "tables", flags=flags(G=1), jobs=4)
    for rj in rej:
        rj["curve"] = curve
    report_rejects(chk, rej, what)
    evs = read_ndjson(tp)
    for e in evs:
        if e.get("ev") == "gens":
            chk.count_case([curve, e.get("g"), e.get("argcap"), e.get("argparties"), e.get("n"), e.get("m"), e.get("cap"), e.get("parties")])
    return acc, rej


def validate_aux(chk, trace_file, curve, jobs=12, timeout=1500, what="aux", env=None):
    """Validate a stateless-component trace (TraceAux.tla): events are independent, so a rejected event is cut out and the
    rest validated again. Returns (events_accepted, rejected_events)."""
    events = read_ndjson(trace_file)
    if not events:
        raise ToolError("empty trace %s" % trace_file)
    n = max(1, min(jobs, len(events) // 200 or 1))
    chunks = [events[i::n] for i in range(n)]
    rejected, accepted = [], 0
    pending = list(enumerate(chunks))
    rnd = 0
    while pending and rnd <= 5:
        args = []
        for i, ch in pending:
            p = chk.path("aux_%s_%d_%d.ndjson" % (curve, i, rnd))
            write_ndjson(p, ch)
            args.append((p, curve, {}, chk.path("tva_%s_%d_%d" % (curve, i, rnd)), timeout, "TraceAux"))

        def one(a):
            path, curve_, flags_, metadir, to, cfgname = a
            return tlc("TraceAux.tla", "%s_%s.cfg" % (cfgname, curve_), metadir, workers=1, env=dict(env or {}, TRACE=path), timeout=to)

        with cf.ThreadPoolExecutor(max_workers=jobs) as ex:
            results = list(ex.map(one, args))
        nxt = []
        for (i, ch), a, r in zip(pending, args, results):
            os.remove(a[0])
            chk.cov["transitions"] += r["states"]
            if r["timeout"]:
                raise ToolError("TLC timed out on an aux trace")
            if r["error"] is None and r["depth"] == len(ch) + 1:
                accepted += len(ch)
                continue
            m = re.search(r'"first unmatched event",\s*(\d+)', r["out"])
            if not m:
                log(r["out"][-3000:])
                raise ToolError("TLC failed while validating an aux trace: %s" % r["error"])
            idx = int(m.group(1))
            rejected.append(ch[idx - 1])
            accepted += idx - 1
            if ch[idx:]:
                nxt.append((i, ch[idx:]))
        pending = nxt
        rnd += 1
    chk.cov["traces_validated_against_impl"] += accepted
    return accepted, rejected


def protocol_mc(chk, nseeds=None):
    """End-to-end model check of System (MC_Protocol) under several oracle samples, with its non-vacuity probes."""
    nseeds = nseeds or (2 if chk.quick else 10)
    for k in range(nseeds):
        r = tlc("MC_Protocol.tla", "MC_Protocol.cfg", chk.path("mcp%d" % k), workers=8, timeout=3000, seed=chk.seed * 1000 + k)
        if r["error"] or r["states"] == 0:
            log(r["out"][-3000:])
            raise ToolError("MC_Protocol (seed %d): %s" % (k, r["error"]))
        chk.cov["states"] += r["distinct"]
        chk.cov["transitions"] += r["states"]
    chk.cov["tlc_runs"].append({"module": "MC_Protocol.tla", "cfg": "MC_Protocol.cfg", "oracle_samples": nseeds})
    for probe in ("NV_ValidAccepted", "NV_InvalidRejected"):
        cfg = chk.path("nv_%s.cfg" % probe)
        open(cfg, "w").write("SPECIFICATION PSpecMC\nCONSTANTS\n  P = 31723\nINVARIANT %s\nCHECK_DEADLOCK FALSE\n" % probe)
        r = tlc("MC_Protocol.tla", cfg, chk.path("nv_" + probe), workers=4, timeout=1200, seed=chk.seed)
        if not (r["error"] and "Invariant" in r["error"]):
            raise ToolError("non-vacuity probe %s was not violated: the protocol model never reaches that situation" % probe)


def library_mc(chk, probes=("NV_CapErrorP", "NV_CapErrorV", "NV_AcceptedAfterIncrease", "NV_ShapeRejected")):
    """Model check of the composed machine (MC_Library: table histories x byte-level adversary through System's prover and verifier),
    with the named non-vacuity probes (each must be violated)."""
    maxcap = 4 if chk.quick else 6
    cfg = chk.path("lib.cfg")
    open(cfg, "w").write("SPECIFICATION LSpec\nCONSTANTS\n  P = 31723\n  MaxCap = %d\nINVARIANT LibInv\nINVARIANT RunsToEnd\nPROPERTY ChainGrows\nCHECK_DEADLOCK FALSE\n" % maxcap)
    r = tlc("MC_Library.tla", cfg, chk.path("mclib"), workers=8, timeout=3000, seed=chk.seed)
    if r["error"] or r["states"] == 0 or r["timeout"]:
        log(r["out"][-3000:])
        raise ToolError("MC_Library: %s" % (r["error"] or "no states / timeout"))
    chk.cov["states"] += r["distinct"]
    chk.cov["transitions"] += r["states"]
    chk.cov["tlc_runs"].append({"module": "MC_Library.tla", "cfg": "LibInv RunsToEnd ChainGrows, MaxCap=%d" % maxcap, "states_generated": r["states"], "distinct_states": r["distinct"]})
    for probe in probes:
        cfg = chk.path("nvl_%s.cfg" % probe)
        open(cfg, "w").write("SPECIFICATION LSpec\nCONSTANTS\n  P = 31723\n  MaxCap = %d\nINVARIANT %s\nCHECK_DEADLOCK FALSE\n" % (maxcap, probe))
        r = tlc("MC_Library.tla", cfg, chk.path("nvl_" + probe), workers=4, timeout=1200, seed=chk.seed)
        if not (r["error"] and "Invariant" in r["error"]):
            raise ToolError("non-vacuity probe %s was not violated: the library model never reaches that situation" % probe)


def batchsys_mc(chk):
    """batch_verify over the full verifier algebra (MC_BatchSys): members are complete runs of System; BatchSysIff, BatchSysFirst,
    PairOpposite; the shared-weight design and three non-vacuity probes must each be violated. All runs in parallel."""
    import concurrent.futures as cf
    mm = 2 if chk.quick else 3
    def cfg_of(name, inv, shared):
        p = chk.path("bsys_%s.cfg" % name)
        open(p, "w").write("SPECIFICATION BSSpec\nCONSTANTS\n  P = 31723\n  MaxMembers = %d\n  SharedWeight = %s\nINVARIANT %s\nCHECK_DEADLOCK FALSE\n"
                           % (mm if name == "main" else 2, shared, inv))
        return p
    runs = [("main", "BatchSysInv", "FALSE"), ("shared", "BatchSysIff", "TRUE"), ("NV_PairJoined", "NV_PairJoined", "FALSE"),
            ("NV_EarlyJoined", "NV_EarlyJoined", "FALSE"), ("NV_AllOkBatch", "NV_AllOkBatch", "FALSE")]
    def one(r):
        name, inv, shared = r
        return name, tlc("MC_BatchSys.tla", cfg_of(name, inv, shared), chk.path("bsys_" + name), workers=6 if name == "main" else 2,
                         timeout=3000, seed=chk.seed)
    with cf.ThreadPoolExecutor(max_workers=len(runs)) as ex:
        res = dict(ex.map(one, runs))
    r = res["main"]
    if r["error"] or r["states"] == 0 or r["timeout"]:
        log(r["out"][-3000:])
        raise ToolError("MC_BatchSys: %s" % (r["error"] or "no states / timeout"))
    chk.cov["states"] += r["distinct"]
    chk.cov["transitions"] += r["states"]
    chk.cov["tlc_runs"].append({"module": "MC_BatchSys.tla", "cfg": "BatchSysInv, MaxMembers=%d" % mm, "states_generated": r["states"], "distinct_states": r["distinct"]})
    for name in ("shared", "NV_PairJoined", "NV_EarlyJoined", "NV_AllOkBatch"):
        rr = res[name]
        if not (rr["error"] and "Invariant" in rr["error"]):
            raise ToolError("MC_BatchSys: %s was not violated (%s): the batch model is vacuous there" % (name, rr["error"]))
    chk.cov["spec_mutant_shared_weight_rejected_by_system_model"] = True


def toy_ideal(chk, curve, progs, cfgname, what, name, fl=None, retries=2):
    """Record programs on a toy curve and check an ideal-verdict invariant over the code's own verdicts. A run that violates the
    invariant may be Schwartz-Zippel / small-group luck: it is re-run under fresh randomness and counts only if it repeats every time."""
    fl = fl or flags()
    progs = [dict(p, expect_p="", expect_v="") for p in progs]
    byid = {p["id"]: p for p in progs}
    tp, sums = record(chk, curve, progs, name)
    acc, rej = validate_traces(chk, tp, curve, flags=fl, cfgname=cfgname)
    for p in progs:
        chk.count_case([curve, p["id"], p.get("tamper")])
    for rj in rej:
        pid = rj["run"][0].get("id")
        p = byid.get(pid)
        if p is None or "nvariant" not in rj["reason"]:
            report_rejects(chk, [rj], what)
            continue
        again = []
        for k in range(1, retries + 1):
            p2 = dict(p, seed=(p.get("seed", 0) + 7919 * k) % (1 << 62), id=pid + "-retry%d" % k)
            t2, _ = record(chk, curve, [p2], "retry")
            a2, r2 = validate_traces(chk, t2, curve, flags=fl, cfgname=cfgname)
            again.append(bool(r2))
        if all(again):
            report_rejects(chk, [rj], what)
        else:
            chk.cov["lucky_accepts_explained"] = chk.cov.get("lucky_accepts_explained", 0) + 1
    return rej


def apalache_inductive(chk, module, init="Init", indinit="IndInit", inv="IndInv", timeout=900):
    """Unbounded safety of a small typed module: Init => Inv (length 0) and Inv /\\ Next => Inv' (length 1 from an arbitrary Inv-state)."""
    for name, args in (("base", ["--init=" + init, "--inv=" + inv, "--length=0"]), ("step", ["--init=" + indinit, "--inv=" + inv, "--length=1"])):
        out = chk.path("apalache_" + name)
        r = subprocess.run(["timeout", str(timeout), "apalache-mc", "check"] + args + ["--out-dir=" + out, module], cwd=SPEC,
                           stdout=subprocess.PIPE, stderr=subprocess.STDOUT, text=True)
        shutil.rmtree(out, ignore_errors=True)
        if "EXITCODE: OK" not in r.stdout:
            log(r.stdout[-2000:])
            raise ToolError("Apalache: inductive %s case of %s!%s failed" % (name, module, inv))
    chk.cov["apalache_inductive_invariant"] = "%s!%s: Init => Inv and Inv /\\ Next => Inv' discharged (unbounded call sequences)" % (module, inv)
