"""C15 Linear-combination arithmetic preserves meaning."""
import json
import vlib


def run(chk):
    q = chk.quick
    cfg = chk.path("lc.cfg")
    depth, full = (1, True) if q else (2, False)
    open(cfg, "w").write("SPECIFICATION LSpec\nCONSTANTS\n  P = 31723\n  Depth = %d\n  Full = %s\nINVARIANT Denotation\nINVARIANT Emit\n"
                         "CHECK_DEADLOCK FALSE\n" % (depth, "TRUE" if full else "FALSE"))
    r = vlib.tlc_mc(chk, "MC_LC.tla", cfg, workers=8, timeout=3000)
    behs = vlib.behaviours_from(r["out"])
    for i, b in enumerate(behs):
        b["id"] = "lc-%d" % i
        b["seed"] = chk.seed + i
    chk.sample({"tlc_behaviour": behs[len(behs) // 2]})
    # (B2) each tree is built with the real operators and used as constrain(expr - value [- 1]) on the 256-bit curves;
    # half of them with every small value scaled by a random full-width field element
    for c in vlib.REAL_CURVES:
        bs = [dict(b, wide=(i % 4 >= 2)) for i, b in enumerate(behs)]
        rows = vlib.replay(chk, c, bs, "lc")
        vlib.report_replay(chk, rows, "denotation")
    # (B3) the same behaviours on toy31723 (and a sample on toy79): TLC flattens the tree with its own transcription of the
    # operators, checks the constant against Denote, and judges the code's verdict ideally
    sub = behs if q else behs[:: max(1, len(behs) // 3000)]
    # (the verdict is judged ideally - accepted iff the specification's reading of the recorded calls is satisfied by the assignment - over the
    #  code's own verdict; that the verdict equals the unbatched relations on every input is C03's statement. A verdict that contradicts the
    #  ideal one must repeat under fresh randomness to count: small-group luck does not)
    vlib.toy_ideal(chk, "toy31723", [dict(b) for b in sub], "TraceIdealVerdict", "denotation", "lc31723", fl=vlib.flags(H=1))
    vlib.toy_ideal(chk, "toy79", [dict(b) for b in sub[::3]], "TraceIdealVerdict", "denotation", "lc79", fl=vlib.flags(H=1))
    chk.finish(
        rule="TLC enumerates every expression tree of depth <= %d over variables of all kinds (committed, left, right, output, half-assigned), "
             "Variable::One, constants {0,1,-1,5}, LinearCombination::default, From<Variable>, a collected term list with repeated and zero-coefficient "
             "terms, and the operators Neg, Add, Sub, Mul (on variables and on combinations); LCDenotation is model-checked; each tree yields two "
             "behaviours (expr - value provable, expr - value - 1 not) replayed on all curves with the tree built through the real operator impls. "
             "distinct = distinct (curve, tree, offset)" % depth,
        assumptions=["the harness computes the constant with its own evaluator; TLC cross-checks it (ExprConstOk) on the toy runs"],
        extra={"exhaustive": True})


def replay(chk, path):
    case = json.load(open(path))["payload"]
    if vlib.replay_generic(chk, case):
        chk.finish(rule="re-validation of one recorded trace / batch job")
    if "program" in case:
        rows = vlib.replay(chk, case["curve"], [case["program"]], "replay")
        vlib.report_replay(chk, rows, "denotation")
    chk.finish(rule="replay of one recorded case")
