"""The repository's test gadgets (tests/r1cs_*.rs) as programs of the harness: k-shuffle (one randomized closure),
range proof by bit decomposition, and the example gadget (a1 + a2) * (b1 + b2) = c1 + c2."""
import random


def cap_for(n):
    c = 1
    while c < n:
        c *= 2
    return c


def shuffle(xs, ys, pid, seed):
    """ShuffleProof::gadget: y is a permutation of x  <=>  prod (x_i - z) = prod (y_i - z) for a challenge z."""
    k = len(xs)
    ops = [{"op": "append", "label": "k", "data": [k, 0, 0, 0, 0, 0, 0, 0]}]
    ops += [{"op": "commit", "v": x, "vb": 11 + i} for i, x in enumerate(xs)]
    ops += [{"op": "commit", "v": y, "vb": 31 + i} for i, y in enumerate(ys)]
    if k == 1:
        ops.append({"op": "con", "lc": [["V", 1, 1], ["V", 0, -1]]})
        return {"id": pid, "p": {"label": "ShuffleProofTest", "pre": [["dom-sep", list(b"ShuffleProof")]], "ops": ops, "cbs": [], "cap": 1}, "seed": seed}
    mz = {"k0": 0, "ch": 0, "k1": -1}         # the coefficient -z

    def minus_z(var):
        return [var + [1], ["1", 0, mz]]

    cb = [{"op": "chal", "label": "shuffle challenge"}]
    g = 0
    # x side
    cb.append({"op": "mul", "l": minus_z(["V", k - 1]), "r": minus_z(["V", k - 2])})
    last = g
    g += 1
    for i in range(k - 3, -1, -1):
        cb.append({"op": "mul", "l": [["O", last, 1]], "r": minus_z(["V", i])})
        last = g
        g += 1
    xout = last
    cb.append({"op": "mul", "l": minus_z(["V", 2 * k - 1]), "r": minus_z(["V", 2 * k - 2])})
    last = g
    g += 1
    for i in range(k - 3, -1, -1):
        cb.append({"op": "mul", "l": [["O", last, 1]], "r": minus_z(["V", k + i])})
        last = g
        g += 1
    cb.append({"op": "con", "lc": [["O", xout, 1], ["O", last, -1]]})
    ops.append({"op": "defer", "cb": 0})
    return {"id": pid, "p": {"label": "ShuffleProofTest", "pre": [["dom-sep", list(b"ShuffleProof")]], "ops": ops, "cbs": [cb], "cap": cap_for(g)}, "seed": seed}


def range_proof(v, nbits, pid, seed):
    """range_proof gadget: v = sum b_i 2^i with b_i * (1 - b_i) = 0, via allocate_multiplier(b, 1 - b) and o = 0."""
    ops = [{"op": "commit", "v": v, "vb": 77}]
    lc = [["V", 0, 1]]
    for i in range(nbits):
        bit = (v >> i) & 1
        ops.append({"op": "allocmul", "l": 1 - bit, "r": bit})          # (a, b) = (1 - bit, bit)
        ops.append({"op": "con", "lc": [["O", i, 1]]})                   # a * b = 0
        ops.append({"op": "con", "lc": [["L", i, 1], ["R", i, 1], ["1", 0, -1]]})   # a + b = 1
        lc.append(["R", i, -(1 << i)])
    ops.append({"op": "con", "lc": lc})
    return {"id": pid, "p": {"label": "RangeProofTest", "pre": [], "ops": ops, "cbs": [], "cap": cap_for(nbits)}, "seed": seed}


def example(a1, a2, b1, b2, c1, c2, pid, seed):
    ops = [{"op": "commit", "v": x, "vb": 5 + i} for i, x in enumerate((a1, a2, b1, b2, c1))]
    ops.append({"op": "mul", "l": [["V", 0, 1], ["V", 1, 1]], "r": [["V", 2, 1], ["V", 3, 1]]})
    ops.append({"op": "con", "lc": [["V", 4, 1], ["1", 0, c2], ["O", 0, -1]]})
    return {"id": pid, "p": {"label": "R1CSExampleGadget", "pre": [], "ops": ops, "cbs": [], "cap": 1}, "seed": seed}


def workload(seed, quick=True):
    """(program, holds) pairs: holds = the statement is true for the witness"""
    r = random.Random(seed)
    out = []
    for k in ([1, 2, 3, 4, 5] if quick else [1, 2, 3, 4, 5, 6, 7, 8, 12]):
        xs = [r.randrange(1, 50) for _ in range(k)]
        ys = xs[:]
        r.shuffle(ys)
        out.append((shuffle(xs, ys, "shuffle-%d-ok" % k, seed + k), True))
        bad = ys[:]
        bad[0] = bad[0] + 1
        out.append((shuffle(xs, bad, "shuffle-%d-bad" % k, seed + 50 + k), False))
    for nbits, v in ([(4, 11), (8, 200), (3, 7)] if quick else [(4, 11), (8, 200), (3, 7), (16, 65535), (1, 1), (5, 0)]):
        out.append((range_proof(v, nbits, "range-%d-%d-ok" % (nbits, v), seed + 100 + nbits), True))
        out.append((range_proof(v + (1 << nbits), nbits, "range-%d-%d-bad" % (nbits, v), seed + 150 + nbits), False))
    out.append((example(3, 4, 6, 1, 40, 9, "example-ok", seed + 200), True))
    out.append((example(3, 4, 6, 1, 40, 10, "example-bad", seed + 201), False))
    return out
