"""C13 Pedersen commitments equal v*B + r*B_blinding and are additively homomorphic."""
import json
import vlib


def run(chk):
    r = vlib.tlc_mc(chk, "MC_Pedersen.tla", "MC_Pedersen.cfg", workers=8)
    pats = vlib.behaviours_from(r["out"])
    seen, upats = set(), []
    for p in pats:
        k = json.dumps(p, sort_keys=True)
        if k not in seen:
            seen.add(k)
            upats.append(p)
    chk.sample({"pattern": upats[0]})
    # (B3) toy curves: every (v, r) of the field (toy7, toy79; a lattice of toy31723) on three base pairs, and Prover::commit
    # with its transcript effect; TLC recomputes every commitment
    for curve in ["toy7", "toy79"] + ([] if chk.quick else ["toy31723"]):
        tp = chk.path("ped_%s.ndjson" % curve)
        vlib.harness("pedersen", "--curve", curve, "--seed", chk.seed, "--out", tp)
        acc, rej = vlib.validate_aux(chk, tp, curve)
        chk.cov["evaluations"] += acc + len(rej)
        for e in vlib.read_ndjson(tp)[:1]:
            chk.sample({"curve": curve, "event": e})
        for e in rej:
            chk.violation("pedersen-%s-v%s-r%s" % (curve, e.get("v"), e.get("r")), {"curve": curve, "event": e},
                          "commitment differs from v*B + r*B_blinding (or Prover::commit's transcript effect differs)")
        for e in vlib.read_ndjson(tp):
            chk.distinct.add("%s-%s-%s-%s-%s" % (curve, e["B"], e["Bb"], e["v"], e["r"]))
    # (B2) 256-bit curves: the laws on TLC-chosen value-class patterns (0, 1, -1, > 2^64, order-2, random; default, swapped, random bases),
    # commit() compared with an independent double-and-add and with msm; Prover::commit with the bases it was given
    reps = 1 if chk.quick else 8
    for c in vlib.REAL_CURVES:
        for rep in range(reps):
            pp = chk.path("pats.ndjson")
            vlib.write_ndjson(pp, upats)
            op = chk.path("ped_%s.ndjson" % c)
            vlib.harness("pedersen", "--curve", c, "--patterns", pp, "--seed", chk.seed + rep, "--out", op)
            for row in vlib.read_ndjson(op):
                chk.count_case([c, row["pattern"], rep])
                if row["bad"]:
                    chk.violation("pedersen-law-%s-%d" % (c, row["i"]), {"curve": c, "pattern": row["pattern"], "seed": chk.seed + rep, "bad": row["bad"]},
                                  "; ".join(row["bad"]))
    chk.cov["replayed_behaviours"] = len(upats) * len(vlib.REAL_CURVES) * reps
    chk.finish(
        rule="TLC checks the linearity laws for all (v1,r1,v2,r2) in F_7^4 on three base pairs; on toy7 and toy79 every (v, r) of the field on three "
             "base pairs is committed by the real code and recomputed by TLC (discrete logs), together with Prover::commit and its transcript "
             "append; on the 256-bit curves the laws are run on %d TLC-chosen value-class patterns against independent evaluations. "
             "distinct = distinct (curve, bases, v, r) plus distinct law instances" % len(upats),
        assumptions=["toy commitments are compared as discrete logarithms (exact)", "real-curve instances trust arkworks group arithmetic"],
        extra={"exhaustive": True})


def replay(chk, path):
    chk.finish(rule="replay: re-run the check (cases are deterministic in VERIF_SEED)")
