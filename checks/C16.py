"""C16 Prover and verifier assign identical variables for identical call sequences."""
import json
import vlib


def cfg(chk, name, maxcalls, gen):
    return vlib.builder_cfg(chk, name, maxcalls, gen, rich=False)


def observed_claims(row):
    """C16 evaluated on what the real code returned: role agreement call by call, pairing of single allocations, phase separation."""
    bad = []
    calls = {"P": [c for c in row.get("calls", []) if c[0] == "P"], "V": [c for c in row.get("calls", []) if c[0] == "V"]}
    if not row["program"].get("vskip"):
        for k, (p, v) in enumerate(zip(calls["P"], calls["V"])):
            if p[2] != v[2]:
                break                       # the two roles were not given the same call (prover-only hook calls)
            if p[4] == "" and (p[3] != v[3] or p[5] != v[5]):
                bad.append("call %d (%s): prover returned %s with %s gates, verifier %s with %s gates" % (k, p[2], p[3], p[5], v[3], v[5]))
                break
    for role in ("P", "V"):
        n1 = None      # gates at the end of phase 1
        prev = None
        for c in calls[role]:
            _, ph, op, ret, err, mlen = c
            if ph == 2 and n1 is None:
                n1 = prev[5] if prev else 0
            if op == "alloc" and err == "" and isinstance(ret, list) and len(ret) == 2:
                if ph == 2 and n1 is not None and ret[1] < n1:
                    bad.append("%s: an allocation of the second phase returned %s, a wire of first-phase gate %d" % (role, ret, ret[1]))
                if prev and prev[2] == "alloc" and prev[4] == "" and prev[1] == ph and prev[3][0] == "L" and ret != ["R", prev[3][1]]:
                    bad.append("%s: consecutive single allocations returned %s then %s" % (role, prev[3], ret))
            if op in ("alloc", "alloc_none") and err == "MissingAssignment" and prev is not None and mlen != prev[5]:
                bad.append("%s: a failed allocation changed the gate count" % role)
            prev = c
    return bad


def gates_mismatch(row):
    """the prover's assignment read through the hook vs the specification's (closing of half gates: right wire and output zero)"""
    exp, got = row["program"].get("gates"), row.get("gates")
    if exp is None or got is None or row["program"].get("vskip") or row["pres"] != "ok":
        return []
    def enc(x):
        return x if row["curve"] in vlib.TOY_CURVES else int(x).to_bytes(32, "little").hex()
    want = [[enc(v) for v in g] for g in exp]
    if want != got:
        return ["prover assignment %s differs from the specification's %s" % (got, exp)]
    return []


def value_variants(b):
    """The handles and gate counts a call returns do not depend on the values assigned (the specification's bookkeeping never reads them):
    the same behaviour re-instantiated with other assignments - all zero, and three rotations of (0, 1, -1, 7) over the value-bearing
    calls - must return the same handles on both sides. (The gate-assignment expectation belongs to the original values and is dropped.)"""
    out = []
    pats = [("z", [0]), ("r0", [0, 1, -1, 7]), ("r1", [1, -1, 7, 0]), ("r2", [-1, 7, 0, 1])]
    for name, pat in pats:
        w = json.loads(json.dumps(b))
        k = 0
        hit = False
        for lst in [w["p"]["ops"]] + w["p"].get("cbs", []):
            for o in lst:
                if o.get("op") == "alloc" and o.get("a") is not None:
                    o["a"] = pat[k % len(pat)]; k += 1; hit = True
                elif o.get("op") == "allocmul":
                    o["l"] = pat[k % len(pat)]; o["r"] = pat[(k + 1) % len(pat)]; k += 2; hit = True
                elif o.get("op") == "commit":
                    o["v"] = pat[k % len(pat)]; k += 1
        if hit:
            w.pop("gates", None)
            w["id"] = b["id"] + "-val-" + name
            out.append(w)
    return out


def multi_callback(prog):
    return sum(1 for cb in prog["p"].get("cbs", []) if cb) > 1


def report(chk, rows, what):
    for r in rows:
        chk.count_case(r["program"]["p"], nontrivial=len(r["program"]["p"]["ops"]) > 0)
        bad = observed_claims(r)
        if not multi_callback(r["program"]):
            bad += gates_mismatch(r)
        # disagreement with the handles the specification predicts: the property itself speaks about the two roles and about pairing;
        # with several non-empty callbacks the order in which callbacks run is a wire matter (C18), so the prediction is binding for
        # programs with at most one non-empty callback only
        # (which handle a commit call returns is compared between the two roles above; the property does not number the commitments)
        if r["bad"] and not multi_callback(r["program"]):
            bad += [b for b in r["bad"] if '"commit"' not in b]
        if bad:
            chk.violation("%s-%s-%s" % (what, r["curve"], r["program"].get("id", "")),
                          {"curve": r["curve"], "program": r["program"], "observed": {k: r[k] for k in ("pres", "vres", "decode")}, "mismatch": bad},
                          "; ".join(bad[:3]))


def run(chk):
    # (B1) every call sequence, both roles in lock step: mirror, pending-gate and error invariants
    depth_inv = 6 if chk.quick else 8
    vlib.tlc_mc(chk, "MC_Builder.tla", cfg(chk, "inv", depth_inv, False), workers=8)
    # unbounded: the counter abstraction of the bookkeeping (BuilderInd) has an inductive invariant containing the mirror and pending-gate
    # claims, discharged by Apalache; the generation run below checks with TLC that the concrete builder refines it (PROPERTY AbsStep)
    vlib.apalache_inductive(chk, "BuilderInd.tla")
    # (B2) every behaviour up to the generation depth, replayed on the real Prover/Verifier
    depth_gen = 4 if chk.quick else 5
    r = vlib.tlc_mc(chk, "MC_Builder.tla", cfg(chk, "gen", depth_gen, True), workers=8)
    behs = vlib.behaviours_from(r["out"])
    if not behs:
        raise vlib.ToolError("no behaviours generated")
    for i, b in enumerate(behs):
        b["id"] = "mcb-%d" % i
        b["seed"] = chk.seed * 1000003 + i
    chk.sample({"behaviour": behs[len(behs) // 2]})
    curves = vlib.REAL_CURVES + ["toy31723"]
    for c in curves:
        # this property is about handles, gate counts and the closing of half gates - observed directly (returned values, the prover's
        # assignment through the hook), not through verdicts: whether proofs verify is C01's and C02's business
        bs = [dict(b, expect_v="", expect_p=b["expect_p"] if b["expect_p"] != "ok" else "") for b in behs]
        if c in ("secq256k1", "curve25519"):
            # value independence of the bookkeeping: the same call sequences under other assignments (zeros, ones, minus ones)
            vs = [w for k, b in enumerate(bs) if not b.get("vskip") for w in value_variants(b)]
            if chk.quick:
                vs = vs[::2] if c == "secq256k1" else vs[1::2]
            elif len(vs) > 120000:
                k = (len(vs) + 119999) // 120000
                vs = vs[::k] if c == "secq256k1" else vs[k // 2::k]
            bs = bs + vs
        rows = vlib.replay(chk, c, bs, "mcb")
        report(chk, rows, "handles")
    chk.finish(
        rule="TLC enumerates every lock-step call sequence of at most %d calls over {commit, allocate(Some/None), allocate_multiplier, multiply, "
             "constrain, specify_randomized_constraints, phase switch, challenge_scalar} (invariants), and prints one behaviour per state of the "
             "depth-%d model; each behaviour is replayed through the real Prover and Verifier on %s, comparing every returned handle, error kind and "
             "gate count call by call, and the prover's final assignment of every gate (read through the hook) with the model's - a half gate left open at a phase end must read (a, 0, 0); on two curves every behaviour is also replayed under other assignments (all zero; rotations of 0, 1, -1, 7): handles and gate counts must not depend on the values. distinct = distinct programs with at least one call" % (depth_inv, depth_gen, ", ".join(curves)),
        assumptions=["second-phase calls of a behaviour are distributed over the registered callbacks in every way (NextCb)",
                     "verdicts on the 256-bit curves are ideal (soundness error 2^-250 ignored); toy31723 programs use values 2,3 only, so no coincidences arise"],
        extra={"exhaustive": True})


def replay(chk, path):
    case = json.load(open(path))["payload"]
    if vlib.replay_generic(chk, case):
        chk.finish(rule="re-validation of one recorded trace / batch job")
    rows = vlib.replay(chk, case["curve"], [case["program"]], "replay")
    report(chk, rows, "handles")
    chk.finish(rule="replay of one recorded case")
