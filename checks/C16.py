"""C16 Prover and verifier assign identical variables for identical call sequences."""
import json
import vlib


def cfg(chk, name, maxcalls, gen):
    return vlib.builder_cfg(chk, name, maxcalls, gen, rich=False)


def report(chk, rows, what):
    for r in rows:
        chk.count_case(r["program"]["p"], nontrivial=len(r["program"]["p"]["ops"]) > 0)
        if r["bad"]:
            chk.violation("%s-%s-%s" % (what, r["curve"], r["program"].get("id", "")), {"curve": r["curve"], "program": r["program"], "observed": {k: r[k] for k in ("pres", "vres", "decode")},
                                                            "mismatch": r["bad"]}, "; ".join(r["bad"]))


def run(chk):
    # (B1) every call sequence, both roles in lock step: mirror, pending-gate and error invariants
    depth_inv = 6 if chk.quick else 8
    vlib.tlc_mc(chk, "MC_Builder.tla", cfg(chk, "inv", depth_inv, False), workers=8)
    # (B2) every behaviour up to the generation depth, replayed on the real Prover/Verifier
    depth_gen = 4 if chk.quick else 5
    r = vlib.tlc_mc(chk, "MC_Builder.tla", cfg(chk, "gen", depth_gen, True), workers=8)
    behs = vlib.behaviours_from(r["out"])
    if not behs:
        raise vlib.ToolError("no behaviours generated")
    for i, b in enumerate(behs):
        b["id"] = "mcb-%d" % i
        b["seed"] = chk.seed * 1000003 + i
    chk.sample({"behaviour": behs[len(behs) // 2]})
    curves = vlib.REAL_CURVES + ["toy31723"]
    for c in curves:
        # ideal verdicts are meaningful on the 256-bit curves only; on the toy curve handles and counts are compared
        bs = behs if c in vlib.REAL_CURVES else [dict(b, expect_v="", expect_p="") for b in behs]
        rows = vlib.replay(chk, c, bs, "mcb")
        report(chk, rows, "handles")
    chk.finish(
        rule="TLC enumerates every lock-step call sequence of at most %d calls over {commit, allocate(Some/None), allocate_multiplier, multiply, "
             "constrain, specify_randomized_constraints, phase switch, challenge_scalar} (invariants), and prints one behaviour per state of the "
             "depth-%d model; each behaviour is replayed through the real Prover and Verifier on %s, comparing every returned handle, error kind and "
             "gate count call by call, and the verdict with the model's (probe constraints observe the closing of a pending gate). distinct = distinct programs with at least one call" % (depth_inv, depth_gen, ", ".join(curves)),
        assumptions=["second-phase calls of a behaviour are placed in the first registered callback",
                     "verdicts on the 256-bit curves are ideal (soundness error 2^-250 ignored); toy31723 programs use values 2,3 only, so no coincidences arise"],
        extra={"exhaustive": True})


def replay(chk, path):
    case = json.load(open(path))["payload"]
    rows = vlib.replay(chk, case["curve"], [case["program"]], "replay")
    report(chk, rows, "handles")
    chk.finish(rule="replay of one recorded case")
