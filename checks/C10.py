"""C10 Inner-product argument accepts exactly the correct openings, for all lengths 2^k."""
import json
import vlib


def cfg(chk, name, p, maxk, exhaustive):
    path = chk.path(name + ".cfg")
    open(path, "w").write("SPECIFICATION ISpec\nCONSTANTS\n  P = %d\n  MaxK = %d\n  Exhaustive = %s\nINVARIANT IInv\nINVARIANT Emit\nCHECK_DEADLOCK FALSE\n"
                          % (p, maxk, "TRUE" if exhaustive else "FALSE"))
    return path


def run(chk):
    q = chk.quick
    maxk = 5 if q else 7
    vlib.tlc_mc(chk, "MC_IPP.tla", cfg(chk, "exh", 7, 1, True), workers=8)
    r = vlib.tlc_mc(chk, "MC_IPP.tla", cfg(chk, "smp", 31723, maxk, False), workers=8, timeout=3000)
    insts = vlib.behaviours_from(r["out"])
    if len(insts) != (maxk + 1) * 100:
        raise vlib.ToolError("instance patterns incomplete: %d" % len(insts))
    chk.sample({"instance": insts[7]})
    ip = chk.path("insts.ndjson")
    # (B3) toy curves: create and every verification recomputed by TLC (L, R, a, b, round count, verdicts, folding)
    toy_insts = [i for i in insts if i["k"] <= (4 if q else 6)]
    if q:
        toy_insts = toy_insts[::2]
    for curve in ["toy7", "toy79", "toy31723"]:
        vlib.write_ndjson(ip, toy_insts if curve != "toy7" else [i for i in toy_insts if i["k"] <= 3])
        tp, rp = chk.path("ipp_%s.tr" % curve), chk.path("ipp_%s.res" % curve)
        vlib.harness("ipp", "--curve", curve, "--instances", ip, "--seed", chk.seed, "--out", tp, "--results", rp)
        for row in vlib.read_ndjson(rp):
            chk.count_case([curve, row["inst"]])
            if row["bad"]:
                chk.violation("ipp-%s-%d" % (curve, row["i"]), {"curve": curve, "inst": row["inst"], "seed": chk.seed, "bad": row["bad"]}, "; ".join(row["bad"]))
        acc, rej = vlib.validate_aux(chk, tp, curve, env={"CMP_L": "0"})     # labels are not this property's business
        for e in rej:
            chk.violation("ipp-%s-%s-n%s-%s" % (curve, e["ev"], e.get("n"), e.get("kind", "")), {"curve": curve, "event": e},
                          "%s (%s): not what the specification computes" % (e["ev"], e.get("kind", "")))
    # (B2) 256-bit curves: ideal verdicts for the correct opening and every rejection class
    vlib.write_ndjson(ip, insts)
    for c in vlib.REAL_CURVES:
        tp, rp = chk.path("ipp_%s.tr" % c), chk.path("ipp_%s.res" % c)
        vlib.harness("ipp", "--curve", c, "--instances", ip, "--seed", chk.seed, "--out", tp, "--results", rp)
        for row in vlib.read_ndjson(rp):
            chk.count_case([c, row["inst"]])
            chk.cov["replayed_behaviours"] += row["events"]
            if row["bad"]:
                chk.violation("ipp-%s-%d" % (c, row["i"]), {"curve": c, "inst": row["inst"], "seed": chk.seed, "bad": row["bad"]}, "; ".join(row["bad"]))
    chk.finish(
        rule="TLC model-checks IppComplete / IppEqFold / IppRejects / FirstRoundEq / ShapeGuard for all vectors over F_7 (n <= 2) and for every "
             "(k <= %d, vector pattern x vector pattern x factor patterns) with sampled values at P = 31723; each pattern is instantiated on the real "
             "code through the guarded re-export: create, then verify the correct opening, a wrong product, altered a, b, round, swapped/reordered "
             "rounds, altered factor, identity round, and claimed lengths n/2 and 2n. Toy runs are recomputed by TLC field by field; 256-bit runs use "
             "ideal verdicts. distinct = distinct (curve, pattern)" % maxk,
        assumptions=["zero challenges on toy curves make create panic (inverse().unwrap()); such events are accepted as degenerate"])


def replay(chk, path):
    case = json.load(open(path))["payload"]
    if vlib.replay_generic(chk, case):
        chk.finish(rule="re-validation of one recorded trace / batch job")
    if "event" in case:
        tp = chk.path("replay.ndjson")
        vlib.write_ndjson(tp, [case["event"]])
        acc, rej = vlib.validate_aux(chk, tp, case["curve"])
        for e in rej:
            chk.violation("ipp-replay", {"curve": case["curve"], "event": e}, "not what the specification computes")
    chk.finish(rule="re-validation of one recorded event")
