"""C02 Soundness against invalid witnesses: violated constraints are never accepted."""
import json
import vlib
from checks import gadgets


def big_statement(rows, violated=None):
    """two commitments, one multiplication over them (constraints 0 and 1), then `rows` public rows a_j * x + y + c_j = 0 with c_j by
    construction; row `violated` (if any) is off by one"""
    ops = [{"op": "commit", "v": 3, "vb": 5}, {"op": "commit", "v": 4, "vb": 2}, {"op": "mul", "l": [["V", 0, 1]], "r": [["V", 1, 1]]}]
    for j in range(rows):
        o = {"op": "con", "lc": [["V", 0, j % 7 + 1], ["V", 1, 1]], "fix": j + 1}
        if j == violated:
            o["delta"] = 1
        ops.append(o)
    return ops


def position_sweep(rows, gates, seed):
    progs = []
    for j in range(rows):
        progs.append({"id": "sweep-row-%d" % j, "p": {"label": "verif", "pre": [], "cap": 1, "cbs": [], "ops": big_statement(rows, j)},
                      "seed": seed + j, "expect_p": "", "expect_v": "reject"})
    # gates: n1 first-phase gates, the rest in a randomized closure; gate i's output overwritten (hook) in the phase that created it
    n1 = gates * 3 // 5
    mulop = {"op": "allocmul", "l": 2, "r": 3}
    pad = 1
    while pad < gates:
        pad *= 2
    for i in range(gates):
        ops = [dict(mulop, l=2 + k % 5) for k in range(n1)] + [{"op": "defer", "cb": 0}]
        cb = [{"op": "chal", "label": "c"}] + [dict(mulop, r=3 + k % 4) for k in range(gates - n1)]
        bg = {"op": "breakgate", "i": i, "delta": 1}
        if i < n1:
            ops.insert(n1, bg)
        else:
            cb.append(bg)
        progs.append({"id": "sweep-gate-%d" % i, "p": {"label": "verif", "pre": [], "cap": pad, "cbs": [cb], "ops": ops},
                      "seed": seed + 5000 + i, "expect_p": "", "expect_v": "reject"})
    return progs


def run(chk):
    q = chk.quick
    # (B1) System end to end on the exact field model, random-oracle challenges (MC_Protocol: Completeness, RoleSync, FSBinding,
    # RejectsInvalid, MegaIdentity), with non-vacuity probes
    vlib.protocol_mc(chk)
    depth = 3 if q else 4
    behs = vlib.generate_behaviours(chk, depth, rich=True, name="rich", maxdev=2)
    for b in behs:
        b.pop("rets", None)      # handles and gate counts are C16's business: only the results of prove and verify are judged here
    bad = [b for b in behs if b["expect_v"] == "reject"]
    cap_n = 4000 if q else 45000
    if len(bad) > cap_n:
        # (depth 4 with two deviations and the confusion offsets yields ~10^5 behaviours: an evenly spaced subset is replayed; TLC still
        #  checks DeviationIffUnsatisfied on every one of them)
        chk.cov["behaviours_generated_not_replayed"] = len(bad) - len(bad[::(len(bad) + cap_n - 1) // cap_n])
        bad = bad[::(len(bad) + cap_n - 1) // cap_n]
    chk.sample({"tlc_behaviour": bad[len(bad) // 2]})
    extra = []
    for k, b in enumerate(bad):
        if k % (4 if q else 2) == 1:
            w = json.loads(json.dumps(b))
            w["wide"] = True
            w["id"] = b["id"] + "-wide"
            extra.append(w)
    # the violating offset spelt as a constant term of its own, before or after the constant that would satisfy the constraint: a flattening
    # that keeps only one constant term of a constraint (the first, the last) then sees a satisfied constraint
    def split_variants(b):
        out = []
        for how in ("first", "last"):
            w = json.loads(json.dumps(b))
            hit = False
            for side in ("p", "v"):
                if w.get(side) is None:
                    continue
                for lst in [w[side]["ops"]] + w[side].get("cbs", []):
                    for o in lst:
                        if o.get("op") == "con" and o.get("delta") is not None and o.get("fix") is not None:
                            o["split"] = how
                            hit = True
            if hit:
                w["id"] = b["id"] + "-split-" + how
                w["rets"] = None
                out.append(w)
        return out
    for k, b in enumerate(bad):
        if k % (3 if q else 1) == 0:
            extra.extend(split_variants(b))
    # (B2) every single violated constraint / gate (position x phase) on the 256-bit curves: ideal verdict "rejected"
    for c in vlib.REAL_CURVES:
        rows = vlib.replay(chk, c, bad + extra, "c02")
        vlib.report_replay(chk, rows, "soundness")
    # position sweeps (the property: "for every position of the violated constraint or gate"): one large statement, one violated row / gate
    # per program, every position - in particular the positions a blockwise or tabulated flattening could treat differently
    for c in vlib.REAL_CURVES:
        vlib.report_replay(chk, vlib.replay(chk, c, position_sweep(300 if q else 1100, 21 if q else 70, chk.seed), "sweep"), "soundness-position")
    # the repository's gadgets with false statements (not a permutation, value out of range, wrong sum): semantic violations, no hook needed
    gad = [dict(p, expect_p="ok", expect_v="reject") for p, holds in gadgets.workload(chk.seed, q) if not holds]
    for c in vlib.REAL_CURVES:
        vlib.report_replay(chk, vlib.replay(chk, c, gad, "gadgets"), "soundness-gadget")
    # (B3) random programs with one violated constraint or gate on toy31723; TLC decides from the recorded calls whether the
    # assignment really is unsatisfying (IdealSoundness). An accepted one is re-run with fresh randomness: luck does not repeat.
    n = 300 if q else 5000
    curve = "toy31723"
    progs = vlib.genprogs(chk, chk.seed, n, vlib.TOY_P[curve], "badwit", "badwit")
    byid = {p["id"]: p for p in progs}
    tp, sums = vlib.record(chk, curve, progs, "badwit")
    acc, rej = vlib.validate_traces(chk, tp, curve, flags=vlib.flags(E=1), cfgname="TraceIdealSoundness")
    chk.sample({"random_program": progs[0]})
    for rj in rej:
        pid = rj["run"][0].get("id")
        p = byid.get(pid)
        if p is None or "Invariant" not in rj["reason"]:
            vlib.report_rejects(chk, [rj], "toy-soundness")
            continue
        again = []
        for k in (1, 2):
            p2 = dict(p, seed=(p["seed"] + 7919 * k) % (1 << 63), id=pid + "-retry%d" % k)
            tp2, _ = vlib.record(chk, curve, [p2], "retry")
            a2, r2 = vlib.validate_traces(chk, tp2, curve, flags=vlib.flags(E=1), cfgname="TraceIdealSoundness")
            again.append(bool(r2))
        if all(again):
            vlib.report_rejects(chk, [rj], "toy-soundness")
        else:
            chk.cov.setdefault("lucky_accepts_explained", 0)
            chk.cov["lucky_accepts_explained"] += 1
    # "small" programs: free constraints over values and coefficients from -2 .. 3 and arbitrary small assignments - no offset is planted;
    # the specification's Satisfied() over the recorded calls is the oracle: accepted => satisfied (whatever way the assignment fails)
    ns = 700 if q else 8000
    small = vlib.genprogs(chk, chk.seed + 32, ns, vlib.TOY_P[curve], "small", "small")
    vlib.toy_ideal(chk, curve, small, "TraceIdealSoundness", "toy-soundness-small", "small31723", fl=vlib.flags(E=1))
    chk.finish(
        rule="TLC (MC_Builder, Rich) enumerates every program of at most %d calls with one or two deviations - a constraint off by +1 or -1 "
             "constant (every position, both phases, constant-only / committed-only / multiplier constraints) or a gate whose output is "
             "overwritten through the guarded hook (first and last gate, both phases), and variants in which the offset is a separate constant term before / after the satisfying constant; DeviationIffUnsatisfied is model-checked; each is replayed on "
             "secq256k1, zorro, curve25519 and must be rejected. Random bad-witness programs on toy31723 are validated by TLC (IdealSoundness), "
             "accepted ones re-run twice with fresh randomness; position sweeps on the 256-bit curves: a statement of 300 (thorough: 1100) constraints with each single row violated, a two-phase circuit of 21 (70) gates with each single gate violated; so are random programs with free constraints over small values and arbitrary small assignments (no planted offset: accepted => Satisfied). distinct = distinct (curve, program) pairs" % depth,
        assumptions=["ideal verdicts on 256-bit curves ignore events of probability ~2^-250",
                     "toy31723: an acceptance of an unsatisfying assignment counts only if it repeats under two fresh seeds (Schwartz-Zippel luck ~6e-4 per run)"])


def replay(chk, path):
    case = json.load(open(path))["payload"]
    if vlib.replay_generic(chk, case):
        chk.finish(rule="re-validation of one recorded trace / batch job")
    if "program" in case:
        rows = vlib.replay(chk, case["curve"], [case["program"]], "replay")
        vlib.report_replay(chk, rows, "soundness")
    chk.finish(rule="replay of one recorded case")
