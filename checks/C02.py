"""C02 Soundness against invalid witnesses: violated constraints are never accepted."""
import json
import vlib
from checks import gadgets


def run(chk):
    q = chk.quick
    # (B1) System end to end on the exact field model, random-oracle challenges (MC_Protocol: Completeness, RoleSync, FSBinding,
    # RejectsInvalid, MegaIdentity), with non-vacuity probes
    vlib.protocol_mc(chk)
    depth = 3 if q else 4
    behs = vlib.generate_behaviours(chk, depth, rich=True, name="rich", maxdev=2)
    for b in behs:
        b.pop("rets", None)      # handles and gate counts are C16's business: only the results of prove and verify are judged here
    bad = [b for b in behs if b["expect_v"] == "reject"]
    chk.sample({"tlc_behaviour": bad[len(bad) // 2]})
    extra = []
    for k, b in enumerate(bad):
        if k % (4 if q else 2) == 1:
            w = json.loads(json.dumps(b))
            w["wide"] = True
            w["id"] = b["id"] + "-wide"
            extra.append(w)
    # the violating offset spelt as a constant term of its own, before or after the constant that would satisfy the constraint: a flattening
    # that keeps only one constant term of a constraint (the first, the last) then sees a satisfied constraint
    def split_variants(b):
        out = []
        for how in ("first", "last"):
            w = json.loads(json.dumps(b))
            hit = False
            for side in ("p", "v"):
                if w.get(side) is None:
                    continue
                for lst in [w[side]["ops"]] + w[side].get("cbs", []):
                    for o in lst:
                        if o.get("op") == "con" and o.get("delta") is not None and o.get("fix") is not None:
                            o["split"] = how
                            hit = True
            if hit:
                w["id"] = b["id"] + "-split-" + how
                w["rets"] = None
                out.append(w)
        return out
    for k, b in enumerate(bad):
        if k % (3 if q else 1) == 0:
            extra.extend(split_variants(b))
    # (B2) every single violated constraint / gate (position x phase) on the 256-bit curves: ideal verdict "rejected"
    for c in vlib.REAL_CURVES:
        rows = vlib.replay(chk, c, bad + extra, "c02")
        vlib.report_replay(chk, rows, "soundness")
    # the repository's gadgets with false statements (not a permutation, value out of range, wrong sum): semantic violations, no hook needed
    gad = [dict(p, expect_p="ok", expect_v="reject") for p, holds in gadgets.workload(chk.seed, q) if not holds]
    for c in vlib.REAL_CURVES:
        vlib.report_replay(chk, vlib.replay(chk, c, gad, "gadgets"), "soundness-gadget")
    # (B3) random programs with one violated constraint or gate on toy31723; TLC decides from the recorded calls whether the
    # assignment really is unsatisfying (IdealSoundness). An accepted one is re-run with fresh randomness: luck does not repeat.
    n = 300 if q else 5000
    curve = "toy31723"
    progs = vlib.genprogs(chk, chk.seed, n, vlib.TOY_P[curve], "badwit", "badwit")
    byid = {p["id"]: p for p in progs}
    tp, sums = vlib.record(chk, curve, progs, "badwit")
    acc, rej = vlib.validate_traces(chk, tp, curve, flags=vlib.flags(E=1), cfgname="TraceIdealSoundness")
    chk.sample({"random_program": progs[0]})
    for rj in rej:
        pid = rj["run"][0].get("id")
        p = byid.get(pid)
        if p is None or "Invariant" not in rj["reason"]:
            vlib.report_rejects(chk, [rj], "toy-soundness")
            continue
        again = []
        for k in (1, 2):
            p2 = dict(p, seed=(p["seed"] + 7919 * k) % (1 << 63), id=pid + "-retry%d" % k)
            tp2, _ = vlib.record(chk, curve, [p2], "retry")
            a2, r2 = vlib.validate_traces(chk, tp2, curve, flags=vlib.flags(E=1), cfgname="TraceIdealSoundness")
            again.append(bool(r2))
        if all(again):
            vlib.report_rejects(chk, [rj], "toy-soundness")
        else:
            chk.cov.setdefault("lucky_accepts_explained", 0)
            chk.cov["lucky_accepts_explained"] += 1
    chk.finish(
        rule="TLC (MC_Builder, Rich) enumerates every program of at most %d calls with one or two deviations - a constraint off by +1 or -1 "
             "constant (every position, both phases, constant-only / committed-only / multiplier constraints) or a gate whose output is "
             "overwritten through the guarded hook (first and last gate, both phases), and variants in which the offset is a separate constant term before / after the satisfying constant; DeviationIffUnsatisfied is model-checked; each is replayed on "
             "secq256k1, zorro, curve25519 and must be rejected. Random bad-witness programs on toy31723 are validated by TLC (IdealSoundness), "
             "accepted ones re-run twice with fresh randomness. distinct = distinct (curve, program) pairs" % depth,
        assumptions=["ideal verdicts on 256-bit curves ignore events of probability ~2^-250",
                     "toy31723: an acceptance of an unsatisfying assignment counts only if it repeats under two fresh seeds (Schwartz-Zippel luck ~6e-4 per run)"])


def replay(chk, path):
    case = json.load(open(path))["payload"]
    if vlib.replay_generic(chk, case):
        chk.finish(rule="re-validation of one recorded trace / batch job")
    if "program" in case:
        rows = vlib.replay(chk, case["curve"], [case["program"]], "replay")
        vlib.report_replay(chk, rows, "soundness")
    chk.finish(rule="replay of one recorded case")
