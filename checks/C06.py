"""C06 Fiat-Shamir discipline: challenges bind all prior messages; roles stay in sync."""
import json
import vlib


def run(chk):
    q = chk.quick
    # (B1) System end to end on the exact field model, random-oracle challenges (MC_Protocol: Completeness, RoleSync, FSBinding,
    # RejectsInvalid, MegaIdentity), with non-vacuity probes
    vlib.protocol_mc(chk)
    fl = dict(vlib.flags(O=1), OPS_MODE="embed")
    plan = [("toy79", "honest", 200 if q else 5000), ("toy31723", "mixed", 250 if q else 6000), ("toy7", "honest", 100 if q else 2000)]
    for i, (curve, kind, n) in enumerate(plan):
        vlib.toy_traces(chk, curve, kind, n, fl, "schedule", seed_off=10 + i, cfgname="TraceSync")
    chk.finish(
        rule="for every run the traced Merlin log of both roles (every append with label and payload, every challenge, forks, RNG construction) is "
             "validated by TLC against the operation list the specification derives for that statement and proof shape (P1Ops/P2Ops, VerifyP1/P2): "
             "the specification's operations must embed in order - a missing, reordered, relabelled or truncated operation, an extra challenge, or a "
             "payload that is not the full encoding of the object sent, rejects the trace; the transcripts handed back must drive equal follow-up "
             "challenges (end event) and RoleSync must hold in every state. distinct = distinct (curve, program)",
        assumptions=["extra appends performed identically by both roles are tolerated here (they only add binding); C18 demands equality",
                     "payload identity is checked by value on toy curves (point = discrete log, scalar, u64, text)"])


def replay(chk, path):
    case = json.load(open(path))["payload"]
    tp = chk.path("replay.ndjson")
    vlib.write_ndjson(tp, case["trace"])
    acc, rej = vlib.validate_traces(chk, tp, case["curve"], flags=case.get("flags"))
    vlib.report_rejects(chk, rej, "schedule")
    chk.finish(rule="re-validation of one recorded trace")
