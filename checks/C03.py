"""C03 Verifier verdict equals the unbatched Bulletproofs verification relations."""
import json, collections
import vlib
from checks import gadgets


def run(chk):
    q = chk.quick
    plan = [("toy79", "mixed", 350 if q else 12000), ("toy31723", "mixed", 200 if q else 6000), ("toy7", "mixed", 150 if q else 3000),
            ("toy79", "tamper", 300 if q else 8000),
            # altered second-phase commitments: on a 7-element group a mis-weighted or unabsorbed field changes the verdict of ~2/7 of the runs
            ("toy7", "tamper2", 400 if q else 6000), ("toy79", "tamper2", 400 if q else 6000),
            # surplus inner-product rounds with arbitrary points: rejected by the shape guard, not by the luck of the algebra
            ("toy7", "surplus", 400 if q else 6000), ("toy79", "surplus", 200 if q else 4000)]
    outcomes = collections.Counter()
    for i, (curve, kind, n) in enumerate(plan):
        # only the verifier's verdict is compared: the proof on the wire (honest, from a bad witness, or tampered) is an input
        progs, sums, rej = vlib.toy_traces(chk, curve, kind, n, vlib.flags(V=1), "verdict", seed_off=i)
        for s in sums:
            outcomes[(curve, s["vres"][:20] or s["pres"][:20])] += 1
    # the combiner attack: the verifier is first asked to check the unaltered proof; with the weight r it derived there, t_x_blinding is shifted
    # by d and e_blinding by -r*d - the pair of changes that leaves the combined sum untouched under THAT r. The specified verifier derives r
    # after both scalars and so derives another one; the separate relations (b), (c) reject the altered proof whatever r is. Here a vanishing
    # weighted sum is construction, not luck: the one-in-P coincidence is tolerated by counting (at most one per workload), not by rule.
    for j, (curve, n) in enumerate([("toy31723", 200 if q else 4000), ("toy79", 150 if q else 3000)]):
        name = "rcraft_%s" % curve
        progs = vlib.genprogs(chk, chk.seed + 90 + j, n, vlib.TOY_P[curve], "rcraft", name)
        tp, sums = vlib.record(chk, curve, progs, name)
        acc, rej = vlib.validate_traces(chk, tp, curve, flags=dict(vlib.flags(V=1), NO_LUCK="1"), max_rejects=8)
        for p_ in progs:
            chk.count_case([curve, p_["p"], p_.get("tamper")])
        budget = len(progs) * 4 // vlib.TOY_P[curve] + 2
        if len(rej) <= budget:
            chk.cov["combiner_coincidences_tolerated"] = chk.cov.get("combiner_coincidences_tolerated", 0) + len(rej)
        else:
            vlib.report_rejects(chk, rej, "combiner-attack")
    # closures that create no gate: the honest second-phase commitments are the identity, which the relations accept ((a) names the mandatory
    # points only) - a batched linear-equality check with a challenge-dependent constraint, an empty closure, two such closures, no gate at all
    lin = [{"op": "chal", "label": "c"}, {"op": "con", "lc": [["V", 0, {"k0": 1, "ch": 0, "k1": 1}], ["V", 1, {"k0": 0, "ch": 0, "k1": 2}]], "fix": 1}]
    mulv = {"op": "mul", "l": [["V", 0, 1]], "r": [["V", 1, 1]]}
    shapes = [("lin", [mulv], [lin]), ("empty", [mulv], [[]]), ("two", [mulv, {"op": "allocmul", "l": 2, "r": 3}], [lin, []]), ("nogate", [], [lin])]
    nog = []
    for name, first, cbs in shapes:
        for k in range(4 if q else 40):
            ops = [{"op": "commit", "v": 3 + k, "vb": 5}, {"op": "commit", "v": 4, "vb": 2 + k}] + first + [{"op": "defer", "cb": j} for j in range(len(cbs))]
            nog.append({"id": "nogate-%s-%d" % (name, k), "p": {"label": "verif", "pre": [], "ops": ops, "cbs": cbs, "cap": 2}, "seed": chk.seed * 131 + k})
    for curve in ("toy79", "toy31723"):
        vlib.toy_traces(chk, curve, "nogate", 0, vlib.flags(V=1), "verdict-nogate-closure", progs=[dict(p) for p in nog], name="nogate" + curve)
    gad = [dict(p) for p, holds in gadgets.workload(chk.seed, q)]
    for curve in ("toy79", "toy31723"):
        vlib.toy_traces(chk, curve, "gadgets", 0, vlib.flags(V=1), "verdict-gadget", progs=[dict(p) for p in gad], name="gad" + curve)
    chk.cov["verdicts_observed"] = {"%s:%s" % k: v for k, v in sorted(outcomes.items())}
    chk.finish(
        rule="seeded random programs (honest, one violated constraint/gate, one tampered proof field, free constraints) and circuits whose randomized closures create no gate (identity second-phase commitments) run through the real "
             "prover and verifier on toy7/toy79/toy31723; for every verify call TLC recomputes, from the recorded statement, proof and challenges, "
             "(a) the identity validations in order, the shape guards, (b) Tres, (c) Ires with generators folded round by round, and the combined "
             "residual, and demands: code verdict = specification verdict, mega = Ires + r*Tres, and verdict = (Ires = 0 and Tres = 0) unless "
             "Tres != 0 and r = -Ires/Tres. A further workload alters t_x_blinding and e_blinding together using the weight r the verifier derived for the unaltered proof (the pair of changes that cancels under that r): there the coincidence is not excused. Small groups make weak checks visible: a verifier that drops or mis-weights a term differs from the "
             "specification on a few percent of toy79 proofs. distinct = distinct (curve, program, tamper) with >= 1 call",
        assumptions=["challenge scalars are taken as the code derived them (hook H3), so the derivation itself is not part of this property",
                     "runs with a zero challenge are validated up to that event"])


def replay(chk, path):
    case = json.load(open(path))["payload"]
    tp = chk.path("replay.ndjson")
    vlib.write_ndjson(tp, case["trace"])
    acc, rej = vlib.validate_traces(chk, tp, case["curve"], flags=case.get("flags") or vlib.flags(V=1))
    vlib.report_rejects(chk, rej, "verdict")
    chk.finish(rule="re-validation of one recorded trace")
