"""C05 Statement and context binding: a proof verifies only for its own statement."""
import copy, json
import vlib

MUL = {"op": "allocmul", "l": 2, "r": 3}


def bases(seed, rows=300):
    out = []
    # A: two referenced commitments, an unreferenced third, a multiplication over them, application data before and during construction
    out.append({"id": "A", "gates": 1, "p": {"label": "verif", "pre": [["app-ctx", [1, 2, 3]]], "cap": 1, "cbs": [], "ops": [
        {"op": "commit", "v": 2, "vb": 3}, {"op": "commit", "v": 5, "vb": 1}, {"op": "append", "label": "memo", "data": [9, 9]},
        {"op": "mul", "l": [["V", 0, 1]], "r": [["V", 1, 1]]},
        {"op": "con", "lc": [["O", 0, 2], ["V", 1, 3], ["1", 0, 5]], "fix": 1},
        {"op": "commit", "v": 7, "vb": 4}]}})
    # B: two phases, challenge-dependent constraint, application data inside the callback
    out.append({"id": "B", "gates": 3, "p": {"label": "verif", "pre": [], "cap": 4, "ops": [
        {"op": "commit", "v": 4, "vb": 6}, {"op": "commit", "v": 9, "vb": 2}, MUL, {"op": "defer", "cb": 0}, {"op": "commit", "v": 1, "vb": 1}],
        "cbs": [[{"op": "chal", "label": "c"}, {"op": "append", "label": "memo2", "data": [7]}, MUL,
                 {"op": "mul", "l": [["V", 0, {"k0": 1, "ch": 0, "k1": 2}]], "r": [["V", 1, 1], ["1", 0, 1]]},
                 {"op": "con", "lc": [["O", 2, 1], ["V", 0, 2], ["1", 0, 3]], "fix": 1}]]}})
    # C: no gate; constraints over committed values only and over constants only
    out.append({"id": "C", "gates": 0, "p": {"label": "verif", "pre": [["app-ctx", [4]]], "cap": 1, "cbs": [], "ops": [
        {"op": "commit", "v": 3, "vb": 8}, {"op": "commit", "v": 6, "vb": 5},
        {"op": "con", "lc": [["V", 0, 2], ["V", 1, 1], ["1", 0, 1]], "fix": 1}, {"op": "con", "lc": [["1", 0, 4], ["1", 0, 3]], "fix": 2},
        {"op": "commit", "v": 1, "vb": 2}]}})
    # D: no gate, no constraint: nothing uses the value base
    out.append({"id": "D", "gates": 0, "p": {"label": "verif", "pre": [], "cap": 1, "cbs": [], "ops": [{"op": "commit", "v": 3, "vb": 8}, {"op": "commit", "v": 4, "vb": 8}]}})
    # E: five gates (padded to eight)
    out.append({"id": "E", "gates": 5, "p": {"label": "verif", "pre": [], "cap": 8, "cbs": [], "ops": [
        {"op": "commit", "v": 2, "vb": 3}, {"op": "commit", "v": 8, "vb": 3}] + [MUL] * 4 + [{"op": "mul", "l": [["O", 3, 1]], "r": [["V", 0, 1], ["V", 1, 2]]},
        {"op": "con", "lc": [["O", 4, 1], ["V", 0, 4], ["1", 0, 9]], "fix": 1}, {"op": "commit", "v": 0, "vb": 0}]}})
    # F: an empty slot - a commitment to (0, 0), i.e. the identity point - next to an ordinary one, used symmetrically (their sum)
    out.append({"id": "F", "gates": 1, "p": {"label": "verif", "pre": [], "cap": 1, "cbs": [], "ops": [
        {"op": "commit", "v": 6, "vb": 7}, {"op": "commit", "v": 0, "vb": 0}, {"op": "commit", "v": 3, "vb": 2},
        {"op": "mul", "l": [["V", 0, 1], ["V", 1, 1]], "r": [["1", 0, 2]]},
        {"op": "con", "lc": [["O", 0, 1], ["V", 0, -2], ["V", 1, -2]]},
        {"op": "commit", "v": 0, "vb": 0}]}})
    # G: a randomized closure is registered but contributes nothing (a size-generic gadget at a degenerate size): only the phase separator tells
    out.append({"id": "G", "gates": 1, "p": {"label": "verif", "pre": [], "cap": 1, "cbs": [[]], "ops": [
        {"op": "commit", "v": 2, "vb": 3}, {"op": "commit", "v": 5, "vb": 1},
        {"op": "mul", "l": [["V", 0, 1]], "r": [["V", 1, 1]]}, {"op": "defer", "cb": 0},
        {"op": "con", "lc": [["O", 0, 1], ["V", 0, 1]], "fix": 1}, {"op": "commit", "v": 7, "vb": 4}]}})
    # H: a large statement (rows public rows a_j * x + y + c_j = 0 over two committed values): every single row deviates in turn
    from checks.C02 import big_statement
    out.append({"id": "H", "gates": 1, "big": True, "p": {"label": "verif", "pre": [], "cap": 1, "cbs": [], "ops": big_statement(rows) + [{"op": "commit", "v": 7, "vb": 4}]}})
    # I: many commitments (each referenced by one row): every single commitment deviates in turn
    many = rows
    ops = [{"op": "commit", "v": j % 5 + 1, "vb": j + 1} for j in range(many)] + [{"op": "mul", "l": [["V", 0, 1]], "r": [["V", many - 1, 1]]}]
    ops += [{"op": "con", "lc": [["V", j, j % 3 + 1]], "fix": j + 1} for j in range(many)]
    out.append({"id": "I", "gates": 1, "big": True, "p": {"label": "verif", "pre": [], "cap": 1, "cbs": [], "ops": ops}})
    for b in out:
        b["seed"] = seed + ord(b["id"])
    return out


def deviations(b):
    """every single statement/context deviation on the verifier side: (name, verifier side, ideal expectation)"""
    p = b["p"]
    devs = []

    def side():
        return copy.deepcopy(p)

    if b.get("big"):
        # the large statement: the constant of every row, and the coefficient of x in every fourth row, changed by one
        many = sum(1 for o in p["ops"] if o["op"] == "commit") > 10
        for i, o in enumerate(p["ops"]):
            if o["op"] == "commit" and many:
                v = side(); v["ops"][i]["v"] = o["v"] + 1; devs.append(("commit-value-%d" % i, v, "reject"))
            if o["op"] == "con" and not many:
                v = side(); v["ops"][i]["lc"] = o["lc"] + [["1", 0, 1]]; devs.append(("ops-constant-%d" % i, v, "reject"))
                if i % 4 == 3:
                    v = side(); v["ops"][i]["lc"][0][2] = o["lc"][0][2] + 1; devs.append(("ops-coefficient-%d-0" % i, v, "reject"))
        return devs

    v = side(); v["label"] = "verif2"; devs.append(("label", v, "reject"))
    v = side(); v["pre"] = v["pre"] + [["extra", [1]]]; devs.append(("pre-extra", v, "reject"))
    if p["pre"]:
        v = side(); v["pre"] = []; devs.append(("pre-missing", v, "reject"))
        v = side(); v["pre"][0][1] = v["pre"][0][1] + [0]; devs.append(("pre-changed", v, "reject"))
        v = side(); v["pre"][0][0] = "app-ctx2"; devs.append(("pre-relabelled", v, "reject"))
    for where, ops in [("ops", p["ops"])] + [("cb%d" % k, cb) for k, cb in enumerate(p["cbs"])]:
        for i, o in enumerate(ops):
            def target(vv):
                return vv["ops"] if where == "ops" else vv["cbs"][int(where[2:])]
            if o["op"] == "append":
                v = side(); target(v)[i]["data"] = o["data"] + [1]; devs.append(("%s-append-changed-%d" % (where, i), v, "reject"))
                v = side(); del target(v)[i]; devs.append(("%s-append-missing-%d" % (where, i), v, "reject"))
                v = side(); target(v)[i]["label"] = o["label"] + "x"; devs.append(("%s-append-relabelled-%d" % (where, i), v, "reject"))
            if o["op"] == "commit":
                v = side(); target(v)[i]["v"] = o["v"] + 1; devs.append(("commit-value-%d" % i, v, "reject"))
                v = side(); target(v)[i]["vb"] = o["vb"] + 1; devs.append(("commit-blinding-%d" % i, v, "reject"))
            if o["op"] == "con":
                for t, term in enumerate(o["lc"]):
                    # a changed coefficient matters only if the committed value it multiplies is non-zero (side condition of the deviation)
                    vals = [c["v"] for c in p["ops"] if c["op"] == "commit"]
                    if term[0] == "V" and vals[term[1]] != 0:
                        v = side(); target(v)[i]["lc"][t][2] = (term[2] + 1) if isinstance(term[2], int) else term[2]
                        if isinstance(term[2], int):
                            devs.append(("%s-coefficient-%d-%d" % (where, i, t), v, "reject"))
                v = side(); target(v)[i]["lc"] = o["lc"] + [["1", 0, 1]]; devs.append(("%s-constant-%d" % (where, i), v, "reject"))
                # ... as the first term, and each constant term the constraint already spells changed in place
                v = side(); target(v)[i]["lc"] = [["1", 0, 1]] + o["lc"]; devs.append(("%s-constant-first-%d" % (where, i), v, "reject"))
                for t, term in enumerate(o["lc"]):
                    if term[0] == "1" and isinstance(term[2], int):
                        v = side(); target(v)[i]["lc"][t][2] = term[2] + 1; devs.append(("%s-constant-changed-%d-%d" % (where, i, t), v, "reject"))
                if o.get("fix") is not None:
                    # the verifier's statement spells an offset of one as a constant term of its own, after / before the constant that satisfies
                    # the prover's statement: a flattening that keeps only the first / the last constant term of a constraint cannot tell
                    v = side(); target(v)[i].update(delta=1, split="first"); devs.append(("%s-constant-after-%d" % (where, i), v, "reject"))
                    v = side(); target(v)[i].update(delta=1, split="last"); devs.append(("%s-constant-before-%d" % (where, i), v, "reject"))
    commits = [i for i, o in enumerate(p["ops"]) if o["op"] == "commit"]
    v = side(); v["ops"].append({"op": "commit", "v": 3, "vb": 3}); devs.append(("commit-extra", v, "reject"))
    v = side(); del v["ops"][commits[-1]]; devs.append(("commit-missing-last", v, "reject"))      # the last commitment is unreferenced
    if len(commits) >= 2:
        v = side(); i, j = commits[0], commits[1]; v["ops"][i], v["ops"][j] = v["ops"][j], v["ops"][i]; devs.append(("commit-reordered", v, "reject"))
    # every adjacent transposition of two different commitments, in particular of an identity commitment with its neighbour
    for a_, b_ in zip(commits, commits[1:]):
        if (p["ops"][a_]["v"], p["ops"][a_]["vb"]) != (p["ops"][b_]["v"], p["ops"][b_]["vb"]):
            v = side(); v["ops"][a_], v["ops"][b_] = v["ops"][b_], v["ops"][a_]; devs.append(("commit-transposed-%d-%d" % (a_, b_), v, "reject"))
    v = side(); v["pc"] = {"bb": 3}; devs.append(("blinding-base", v, "reject"))
    v = side(); v["pc"] = {"b": 3}; devs.append(("value-base", v, "reject" if b["gates"] >= 1 else ""))
    # the one-phase / two-phase context: a closure that contributes nothing, registered on one side only
    if not p["cbs"]:
        v = side(); v["cbs"] = [[]]; v["ops"].append({"op": "defer", "cb": 0}); devs.append(("closure-extra-empty", v, "reject"))
    elif all(len(cb) == 0 for cb in p["cbs"]):
        v = side(); v["cbs"] = []; v["ops"] = [o for o in v["ops"] if o["op"] != "defer"]; devs.append(("closure-missing-empty", v, "reject"))
    if p["cbs"] and any(p["cbs"]):
        # the verifier's closure fails with an error of its own: verify hands that error back (and accepts nothing)
        v = side(); v["cbs"][0].append({"op": "fail"}); devs.append(("closure-fails", v, "GadgetError"))
    return devs


def run(chk):
    q = chk.quick
    # (B1) System end to end on the exact field model, random-oracle challenges (MC_Protocol: Completeness, RoleSync, FSBinding,
    # RejectsInvalid, MegaIdentity), with non-vacuity probes
    vlib.protocol_mc(chk)
    progs = []
    for b in bases(chk.seed, 300 if q else 600):
        # (that the undeviated statement is accepted is completeness, C01's business: here it is only counted - the property speaks of a
        #  proof that is accepted for one statement)
        progs.append({"id": "bind-%s-honest" % b["id"], "p": b["p"], "seed": b["seed"], "expect_p": "", "expect_v": "", "honest_base": True})
        for name, v, exp in deviations(b):
            progs.append({"id": "bind-%s-%s" % (b["id"], name), "p": b["p"], "v": v, "seed": b["seed"], "expect_p": "", "expect_v": exp, "dev": name})
    chk.sample({"deviation": progs[7]["id"], "verifier_side": progs[7]["v"]})
    # (B2) every single deviation on the 256-bit curves: the proof made for the prover's statement must be rejected
    reps = 1 if q else 4
    for c in vlib.REAL_CURVES:
        ps = [dict(p, seed=p["seed"] + 1000 * r, id=p["id"] + ("-r%d" % r if r else "")) for r in range(reps) for p in progs
              if r == 0 or not p["id"].startswith(("bind-H-", "bind-I-"))]          # (the large statements once)
        rows = vlib.replay(chk, c, ps, "bind")
        vlib.report_replay(chk, rows, "binding")
        chk.cov["honest_bases_accepted"] = chk.cov.get("honest_bases_accepted", 0) + sum(1 for r_ in rows if r_["program"].get("honest_base") and r_["vres"] == "ok")
        chk.cov["honest_bases_run"] = chk.cov.get("honest_bases_run", 0) + sum(1 for r_ in rows if r_["program"].get("honest_base"))
    # (B3) toy31723: TLC rebuilds both statements from the recorded calls; an accepted unaltered proof requires equal transcripts, the
    # verifier's constraints satisfied by the prover's assignment and agreeing bases (StatementBinding), and the code's verdict must be the
    # specification's exact verdict for the deviated statement (including the zero-gate value-base carve-out)
    tp = [dict(p, expect_v="", expect_p="") for p in progs if not p["id"].startswith(("bind-H-", "bind-I-"))]      # (the large statement: 256-bit curves only)
    byid = {p["id"]: p for p in tp}
    trace, sums = vlib.record(chk, "toy31723", tp, "bind31723")
    for cfgname, fl in (("TraceStatementBinding", vlib.flags()),):
        acc, rej = vlib.validate_traces(chk, trace, "toy31723", flags=fl, cfgname=cfgname)
        for rj in rej:
            pid = rj["run"][0].get("id")
            p = byid.get(pid)
            lucky = False
            if cfgname == "TraceStatementBinding" and p is not None and "nvariant" in rj["reason"]:
                # an accepted deviating statement on a 15-bit group may be luck: it must repeat under fresh randomness to count
                again = []
                for k in (1, 2):
                    p2 = dict(p, seed=p["seed"] + 7919 * k, id=pid + "-retry%d" % k)
                    t2, _ = vlib.record(chk, "toy31723", [p2], "retry")
                    a2, r2 = vlib.validate_traces(chk, t2, "toy31723", flags=fl, cfgname=cfgname)
                    again.append(bool(r2))
                lucky = not all(again)
            if not lucky:
                vlib.report_rejects(chk, [rj], "binding-" + cfgname)
    for p in progs:
        chk.count_case(["toy31723", p["id"]])
    chk.finish(
        rule="a large statement (300 / 600 rows over two committed values: the constant of every single row and the coefficient in every fourth row changed in turn), a statement with 300 / 600 commitments (each single commitment's value changed in turn) and seven base statements (one- and two-phase, zero to five gates, committed-only and constant-only constraints, application data before and "
             "during construction in both phases) x every single verifier-side deviation - transcript label; application data added, missing, changed, "
             "relabelled (before construction, in phase 1, inside a callback); each commitment's value or blinding changed; extra, missing, reordered "
             "commitment; each coefficient over a committed value and each constant changed; blinding base; value base - replayed on secq256k1, zorro, "
             "curve25519 (must be rejected; the value base only when a gate exists) and on toy31723, where TLC checks StatementBinding on the recorded "
             "calls of both roles. distinct = (curve, base, deviation): %d deviations" % sum(1 for p_ in progs if not p_.get("honest_base")),
        assumptions=["deviations are single; the verifier is built consistently with its own commitment list",
                     "toy31723: an acceptance of a deviating statement counts only if it repeats under two fresh seeds"])


def replay(chk, path):
    case = json.load(open(path))["payload"]
    if vlib.replay_generic(chk, case):
        chk.finish(rule="re-validation of one recorded trace / batch job")
    if "program" in case:
        rows = vlib.replay(chk, case["curve"], [case["program"]], "replay")
        vlib.report_replay(chk, rows, "binding")
    chk.finish(rule="replay of one recorded case")
