"""C12 Generators are deterministic, history-independent, distinct and of prime order."""
import json, os, subprocess
import vlib

FIX = os.path.join(vlib.VERIF, "fixtures", "gens_digests.json")


def run(chk):
    q = chk.quick
    mx = (4, 2, 3) if q else (6, 3, 4)
    cfg = chk.path("gens.cfg")
    open(cfg, "w").write("SPECIFICATION GSpec\nCONSTANTS\n  MaxCap = %d\n  MaxParties = %d\n  MaxOps = %d\n"
                         "INVARIANT HistoryIndependent\nINVARIANT ViewPartyMajor\nINVARIANT Emit\nCHECK_DEADLOCK FALSE\n" % mx)
    r = vlib.tlc_mc(chk, "MC_Gens.tla", cfg, workers=8, timeout=3000)
    hists = vlib.behaviours_from(r["out"])
    for i, h in enumerate(hists):
        h["id"] = "gh-%d" % i
    chk.sample({"history": hists[len(hists) // 2]["ops"], "parties": hists[len(hists) // 2]["parties"]})
    hp = chk.path("hists.ndjson")
    vlib.write_ndjson(hp, hists)
    # (B2) every history and every (n, m) view on the real tables, compared entry by entry with Chain(kind, party, i)
    for c in vlib.REAL_CURVES + ["toy79"]:
        n = 8 if c in vlib.REAL_CURVES else 1
        parts = [hists[i::n] for i in range(n)]
        outs = []
        import concurrent.futures as cf

        def one(i):
            ip, op = chk.path("h_%s_%d.in" % (c, i)), chk.path("h_%s_%d.out" % (c, i))
            vlib.write_ndjson(ip, parts[i])
            vlib.harness("gens", "--curve", c, "--histories", ip, "--out", op)
            return vlib.read_ndjson(op)

        with cf.ThreadPoolExecutor(max_workers=n) as ex:
            for rows, part in zip(ex.map(one, range(n)), parts):
                for row, h in zip(rows, part):
                    chk.count_case([c, h["parties"], h["ops"]])
                    chk.cov["replayed_behaviours"] += 1
                    if row["bad"]:
                        views = [b for b in row["bad"] if b.startswith("view(") or b.startswith("panic")]
                        chk.violation("gens-%s-%s" % (c, h["id"]),
                                      {"curve": c, "parties": h["parties"], "ops": h["ops"], "bad": row["bad"],
                                       "site": "aggregated-view-n0" if all(("view(0," in b) or b.startswith("panic") for b in row["bad"]) else "table"},
                                      "; ".join(row["bad"][:3]))
    # model assumptions on Chain, and the digests pinned from the reference revision: distinct, non-identity, prime order, bit-for-bit
    pinned = json.load(open(FIX)) if os.path.exists(FIX) else {}
    cap, parties = (64, 4) if q else (1024, 8)
    for c in vlib.REAL_CURVES:
        out = vlib.harness("gensfacts", "--curve", c, "--cap", cap, "--parties", parties).stdout
        facts = json.loads(out)
        chk.count_case([c, "facts", cap, parties])
        if facts["bad"]:
            chk.violation("gens-facts-%s" % c, {"curve": c, "bad": facts["bad"]}, "; ".join(facts["bad"]))
        key = "%s-%d-%d" % (c, cap, parties)
        if key in pinned:
            for f in ("digest_G", "digest_H", "B", "B_blinding"):
                if pinned[key][f] != facts[f]:
                    chk.violation("gens-digest-%s-%s" % (c, f), {"curve": c, "field": f, "pinned": pinned[key][f], "observed": facts[f]},
                                  "%s of %s differs from the digest pinned from the reference revision" % (f, key))
        else:
            raise vlib.ToolError("no pinned digest for %s (fixtures/gens_digests.json)" % key)
        # a second process re-derives the same table
        out2 = json.loads(vlib.harness("gensfacts", "--curve", c, "--cap", cap, "--parties", parties).stdout)
        if out2["digest_G"] != facts["digest_G"] or out2["digest_H"] != facts["digest_H"]:
            chk.violation("gens-process-%s" % c, {"curve": c}, "generator table differs between two processes")
    # process lives: one process derives tables and Pedersen bases for several curves in turn (MC_Process enumerates every order of at
    # most 3 / 4 uses); each use must give the pinned bases and the digests of a fresh single-curve process
    cfgp = chk.path("proc.cfg")
    open(cfgp, "w").write('SPECIFICATION PSpec\nCONSTANTS\n  Curves = {"secq256k1", "zorro", "curve25519"}\n  MaxLen = %d\nINVARIANT PInv\nINVARIANT Emit\nCHECK_DEADLOCK FALSE\n' % (3 if q else 4))
    lives = [b["life"] for b in vlib.behaviours_from(vlib.tlc_mc(chk, "MC_Process.tla", cfgp, workers=4)["out"])]
    single = {c: json.loads(vlib.harness("gensfacts", "--curve", c, "--cap", 8, "--parties", 2).stdout) for c in vlib.REAL_CURVES}
    import concurrent.futures as cf

    def life_run(life):
        return life, json.loads(vlib.harness("gensfacts", "--curve", ",".join(life) + ("," if len(life) == 1 else ""), "--cap", 8, "--parties", 2).stdout)

    with cf.ThreadPoolExecutor(max_workers=12) as ex:
        for life, facts in ex.map(life_run, [l for l in lives if len(l) >= 2]):
            chk.count_case(["process-life", life])
            for k, (c, f) in enumerate(zip(life, facts)):
                want = single[c]
                for fld in ("digest_G", "digest_H", "B", "B_blinding"):
                    pin = pinned["%s-%d-%d" % (c, cap, parties)].get(fld) if fld in ("B", "B_blinding") else want[fld]
                    if f[fld] != want[fld] or f[fld] != pin:
                        chk.violation("gens-process-life-%s-%d" % ("-".join(life), k), {"life": life, "use": k, "curve": c, "field": fld, "observed": f[fld], "fresh_process": want[fld]},
                                      "%s of %s derived as use %d of the process life %s differs from a fresh process / the pinned value" % (fld, c, k, life))
                        break
    # (B1) the composed machine: table histories x byte-level adversary through System's prover and verifier (MC_Library)
    vlib.library_mc(chk, probes=("NV_AcceptedAfterIncrease",))
    # (B3) recorded lives of generator tables (both roles of random sessions on toy curves): every stored table after new / increase_capacity /
    # clone / serialise+deserialise and every aggregated view is a window of ONE generator function for the whole trace file (Library!Holds,
    # GensView), and the generators prove / verify work with are party 0's window of the role's table (GensBound)
    for curve, n in (("toy31723", 150 if q else 2000), ("toy79", 150 if q else 2000)):
        vlib.session_traces(chk, curve, n, vlib.flags(G=1), "table-session", seed_off=50)
    # ... and longer table-only lives on the 256-bit curves (values compared as encodings): up to 6 (10) operations, capacities to 16 (32), 0..3 (4) parties
    for c in vlib.REAL_CURVES:
        vlib.table_lives(chk, c, 40 if q else 150, 16 if q else 32, 3 if q else 4, 6 if q else 10, "table-life", seed_off=70)
    chk.finish(
        rule="TLC enumerates every history new(c0) ; (increase_capacity(c) | serialise+deserialise | clone)* with capacities <= %d, parties <= %d, <= %d "
             "operations, checks HistoryIndependent and ViewPartyMajor on the model, and prints each history with the expected capacity after every "
             "step and the expected content of every view G(n,m)/H(n,m), 0 <= n <= capacity, 0 <= m <= parties; each is executed on the real tables "
             "(secq256k1, zorro, curve25519, toy79) and compared entry by entry with a freshly built maximal table. Distinctness, non-identity, "
             "prime order and the digests pinned from the reference revision are checked on tables of %d x %d. Process lives (every order of at most 3 / 4 uses of the three curves within one process, MC_Process) must reproduce the pinned bases and a fresh process's tables. Recorded table lives of random sessions on toy31723 / toy79, and longer table-only lives on secq256k1, zorro, curve25519, are validated against Library.tla (one generator function per trace file). distinct = distinct (curve, history)"
             % (mx[0], mx[1], mx[2], cap, parties),
        assumptions=["Chain(kind, party, i) is identified with entry i of a freshly built table of maximal capacity; its absolute value is pinned by digest",
                     "view preconditions n <= capacity, m <= party capacity"],
        extra={"exhaustive": True})


def replay(chk, path):
    case = json.load(open(path))["payload"]
    if vlib.replay_generic(chk, case):
        chk.finish(rule="re-validation of one recorded trace / batch job")
    if "ops" in case:
        hp, op = chk.path("h.in"), chk.path("h.out")
        vlib.write_ndjson(hp, [{"id": "replay", "parties": case["parties"], "ops": case["ops"], "views": case.get("views", [])}])
        vlib.harness("gens", "--curve", case["curve"], "--histories", hp, "--out", op)
        for row in vlib.read_ndjson(op):
            if row["bad"]:
                chk.violation("gens-replay", dict(case, bad=row["bad"]), "; ".join(row["bad"]))
    chk.finish(rule="replay of one recorded history")
