"""C18 Wire stability: proofs and generators of the reference revision stay valid."""
import json, os
import vlib

FX = os.path.join(vlib.VERIF, "fixtures", "wire")
EXACT = {"CMP_H": "1", "CMP_O": "1", "CMP_P": "1", "CMP_E": "1", "CMP_V": "1"}


def run(chk):
    q = chk.quick
    # (B2) every recorded fixture: the recorded proof is accepted for its statement and rejected for each recorded wrong statement, exactly
    # as at the reference revision; its bytes decode and re-encode to themselves with the recorded token sizes
    for c in vlib.REAL_CURVES + vlib.TOY_CURVES:
        fp = os.path.join(FX, "%s.ndjson" % c)
        if not os.path.exists(fp):
            raise vlib.ToolError("missing fixture file %s" % fp)
        fxs = []
        for name in sorted(os.listdir(FX)):
            if name.startswith(c + ".") and name.endswith(".ndjson") and not name.endswith(".trace.ndjson"):
                fxs += [f for f in vlib.read_ndjson(os.path.join(FX, name)) if "proof" in f]
        ip, op = chk.path("fx_%s.in" % c), chk.path("fx_%s.out" % c)
        vlib.write_ndjson(ip, fxs)
        vlib.harness("fixture", "--curve", c, "--fixtures", ip, "--out", op)
        for f, row in zip(fxs, vlib.read_ndjson(op)):
            chk.count_case([c, f["id"]])
            chk.cov["replayed_behaviours"] += 1
            bad = []
            if row["decode"] != "ok":
                bad.append("recorded proof no longer decodes: %s" % row["decode"])
            elif row["vres"] != row["expect"]:
                if row.get("identity_in_proof") and row["expect"] != "ok":
                    # the recorded proof has the identity in a mandatory position (an honest T_k on a 7- or 79-element group): its recorded rejection
                    # is the identity rule (C03), not a statement about a wrong statement
                    chk.cov["degenerate_recordings_not_compared"] = chk.cov.get("degenerate_recordings_not_compared", 0) + 1
                else:
                    bad.append("recorded verdict %s, now %s" % (row["expect"], row["vres"]))
            if not row.get("reencode"):
                bad.append("recorded bytes do not re-encode to themselves")
            if not row.get("sizes_ok"):
                bad.append("token sizes differ from the recorded layout")
            if bad:
                chk.violation("fixture-%s-%s" % (c, f["id"]), {"curve": c, "fixture": f["id"], "bad": bad}, "; ".join(bad))
        if c == "secq256k1":
            chk.sample({"fixture": {k: fxs[1][k] for k in ("id", "curve", "vres", "len")}, "statement": fxs[1]["program"].get("v", fxs[1]["program"]["p"])})
    # generators, Pedersen bases: bit for bit
    pinned = json.load(open(os.path.join(vlib.VERIF, "fixtures", "gens_digests.json")))
    for key, exp in pinned.items():
        c, cap, parties = key.rsplit("-", 2)
        if q and int(cap) > 64:
            continue
        facts = json.loads(vlib.harness("gensfacts", "--curve", c, "--cap", cap, "--parties", parties).stdout)
        chk.count_case([key, "digest"])
        for f in ("digest_G", "digest_H", "B", "B_blinding"):
            if facts[f] != exp[f]:
                chk.violation("digest-%s-%s" % (key, f), {"key": key, "field": f, "pinned": exp[f], "observed": facts[f]}, "%s of %s is not reproduced bit for bit" % (f, key))
    # (B3) the traces recorded at the reference revision are behaviours of the specification (every operation, proof field, verdict):
    # the specification *is* the reference revision's wire contract
    for c in ("toy79", "toy31723"):
        acc, rej = vlib.validate_traces(chk, os.path.join(FX, "%s.trace.ndjson" % c), c, flags=EXACT, cfgname="TraceExact")
        for rj in rej:
            raise vlib.ToolError("the specification no longer explains the reference revision's recorded trace (%s, run %s): the spec was changed, not the code"
                                 % (c, rj["run"][0].get("id")))
    # fresh runs of the current tree against the same contract: transcript operations must EQUAL the specification's schedule (labels,
    # order, payloads, challenge count)
    # (verdicts of fresh runs are C03's business; what is pinned here is the wire: operations, handles, results of prove)
    fl = vlib.flags(O=1, H=1, E=1)
    for i, (curve, kind, n) in enumerate([("toy31723", "mixed", 250 if q else 5000), ("toy79", "honest", 150 if q else 3000)]):
        vlib.toy_traces(chk, curve, kind, n, fl, "contract", seed_off=50 + i)
    chk.finish(
        rule="55 fixtures per curve, and 18 larger ones on the 256-bit curves and toy31723 (a 300-row statement, 70 commitments, a 24 + 16-gate two-phase circuit, single allocations with zero assignments next to multiplications, half-open power-of-two shapes; each with wrong statements), recorded from the reference revision (circuits with three randomized callbacks; five base statements with ten kinds of wrong statement each where applicable, "
             "circuits of 0..16 gates, two-phase circuits; secq256k1, zorro, curve25519, toy7, toy79, toy31723) are re-verified by the current code "
             "without running any prover: verdicts as recorded, bytes re-encode, token sizes as recorded; generator and Pedersen-base digests bit for "
             "bit; the reference revision's recorded toy traces are validated against the specification in full (so the specification is that "
             "revision's contract), and fresh runs of the current tree are validated against the same specification with transcript equality. "
             "distinct = (curve, fixture)",
        assumptions=["fixtures were recorded once at the pinned revision plus the two fix commits (which do not touch valid inputs) and are never regenerated by a check"])


def replay(chk, path):
    chk.finish(rule="replay: re-run the check (fixtures are static)")
