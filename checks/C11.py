"""C11 Proof encoding round-trips, has shape-determined size, rejects invalid encodings."""
import json, collections
import vlib

SIZES = {"secq256k1": (33, 32), "zorro": (33, 32), "curve25519": (32, 32), "toy79": (2, 1), "toy31723": (3, 2)}


def gates_program(n1, n2, pid, seed):
    mul = {"op": "allocmul", "l": 2, "r": 3}
    ops = [mul] * n1 + ([{"op": "defer", "cb": 0}] if n2 else [])
    n = n1 + n2
    cap = 1
    while cap < n:
        cap *= 2
    return {"id": pid, "p": {"label": "verif", "ops": ops, "cbs": [[mul] * n2] if n2 else [], "cap": cap}, "seed": seed}


def lg_pad(n):
    k, p = 0, 1
    while p < n:
        p *= 2
        k += 1
    return k


def run(chk):
    q = chk.quick
    maxk = 3 if q else 4
    shapes = [(0, 0), (1, 0), (2, 0), (3, 0), (0, 3), (5, 0), (8, 0)] if q else \
             [(n, 0) for n in range(0, 18)] + [(0, 1), (1, 1), (2, 3), (0, 7), (4, 5)]
    for curve in vlib.REAL_CURVES + ["toy31723"]:
        pt, sc = SIZES[curve]
        cfg = chk.path("codec_%s.cfg" % curve)
        open(cfg, "w").write("SPECIFICATION CSpec\nCONSTANTS\n  PtLen = %d\n  ScLen = %d\n  MaxK = %d\nINVARIANT Sound\nINVARIANT RefinesInd\nINVARIANT Emit\nCHECK_DEADLOCK FALSE\n"
                             % (pt, sc, maxk if curve in vlib.REAL_CURVES else 2))
        r = vlib.tlc_mc(chk, "MC_Codec.tla", cfg, workers=8)
        tests = collections.defaultdict(list)
        for b in vlib.behaviours_from(r["out"]):
            tests[b["k"]].append(b["test"])
        jobs = []
        for i, (n1, n2) in enumerate(shapes):
            k = lg_pad(n1 + n2)
            if k not in tests:
                continue
            jobs.append({"prog": gates_program(n1, n2, "enc-%d-%d" % (n1, n2), chk.seed + i), "tests": tests[k], "k": k, "n": n1 + n2})
        if curve == vlib.REAL_CURVES[0]:
            chk.sample({"curve": curve, "shape": jobs[2]["prog"]["id"], "tests": jobs[2]["tests"][:3]})
        import concurrent.futures as cf

        def one(j):
            jp, op = chk.path("cj_%s_%s.in" % (curve, j["prog"]["id"])), chk.path("cj_%s_%s.out" % (curve, j["prog"]["id"]))
            vlib.write_ndjson(jp, [j])
            vlib.harness("codec", "--curve", curve, "--jobs", jp, "--seed", chk.seed, "--out", op)
            return vlib.read_ndjson(op)

        with cf.ThreadPoolExecutor(max_workers=12) as ex:
            for j, rows in zip(jobs, ex.map(one, jobs)):
                for row in rows:
                    chk.count_case([curve, j["prog"]["id"], {k: row.get(k) for k in ("kind", "cut", "tok", "tok2", "cls", "which", "val")}])
                    chk.cov["replayed_behaviours"] += 1
                    bad = list(row.get("bad", []))
                    if row["kind"] == "setup" and bad == ["honest run failed"]:
                        chk.cov["shapes_without_honest_proof"] = chk.cov.get("shapes_without_honest_proof", 0) + 1  # completeness is C01's business
                        continue
                    if row["kind"] == "size":
                        law = 11 * pt + 5 * sc + 16 + 2 * j["k"] * pt
                        if row["len"] != law or row["k"] != j["k"]:
                            bad.append("encoded length %d with %d rounds; size law for %d gates: %d bytes, %d rounds" % (row["len"], row["k"], j["n"], law, j["k"]))
                    if bad:
                        chk.violation("codec-%s-%s-%s-%s" % (curve, j["prog"]["id"], row["kind"], row.get("cut", row.get("tok", row.get("val", "")))),
                                      {"curve": curve, "program": j["prog"], "test": {k: v for k, v in row.items() if k != "bad"}, "bad": bad},
                                      "; ".join(bad))
    # (B1) the composed machine: table histories x byte-level adversary through System's prover and verifier (MC_Library)
    vlib.library_mc(chk, probes=("NV_ShapeRejected",))
    # unbounded: the decoder abstraction CodecInd (arbitrary streams, arbitrary counts) has an inductive invariant - memory and time linear in
    # what was read, "ok" only after the final scalars, no invalid token accepted - discharged by Apalache; RefinesInd (TLC, above) ties the
    # concrete decoder runs to it
    vlib.apalache_inductive(chk, "CodecInd.tla")
    # (B3) byte-level sessions on toy curves: what to_bytes emitted is the token stream Library!Tokens spells for the proof (field order,
    # counts, size law, k = log2 of the padded gate count), and from_bytes on honest, truncated, bit-flipped, overwritten, count-edited and
    # extended encodings returns what the decoder state machine returns, with the proof object the tokens stand for
    for curve, n in (("toy31723", 150 if q else 1500), ("toy79", 100 if q else 1000)):
        vlib.session_traces(chk, curve, n, vlib.flags(C=1), "encoding-session", seed_off=40)
    chk.finish(
        rule="TLC model-checks the decoder state machine (Codec: SizeLaw, PrefixRejected, InvalidTokenRejected, TrailingIgnored, DecodeLinearMemory, "
             "DecodeTotal) for k <= %d per curve's token sizes and prints one test per (k, cut byte) - every strict prefix -, per (token position, "
             "invalid class) - scalar >= modulus, scalar = modulus, off-curve x, non-canonical x, point outside the prime-order subgroup (P + small-order "
             "point on curve25519) -, trailing bytes and inflated counts; each is applied to honest proofs of %d circuit shapes (1- and 2-phase) on "
             "secq256k1, zorro, curve25519, toy31723 and run through the real from_bytes (and verify where it decodes); size, determinism and "
             "re-encode equality are checked per shape. Recorded byte-level sessions on toy31723 / toy79 (encode, adversarial bytes, decode) are validated against Library.tla (Tokens, ProofOf, DecodeBytes, EncSize). distinct = distinct (curve, shape, test)" % (maxk, len(shapes)),
        assumptions=["invalid tokens are constructed with arkworks' unchecked decoder as the oracle for 'not a curve point'",
                     "classes that do not exist on a curve (subgroup on cofactor-1 curves) are skipped there"],
        extra={"exhaustive": True})


def replay(chk, path):
    case = json.load(open(path))["payload"]
    if vlib.replay_generic(chk, case):
        chk.finish(rule="re-validation of one recorded trace / batch job")
    jp, op = chk.path("r.in"), chk.path("r.out")
    vlib.write_ndjson(jp, [{"prog": case["program"], "tests": [case["test"]]}])
    vlib.harness("codec", "--curve", case["curve"], "--jobs", jp, "--seed", chk.seed, "--out", op)
    for row in vlib.read_ndjson(op):
        if row.get("bad"):
            chk.violation("codec-replay", {"curve": case["curve"], "program": case["program"], "test": row, "bad": row["bad"]}, "; ".join(row["bad"]))
    chk.finish(rule="replay of one recorded decode test")
