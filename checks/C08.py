"""C08 Hostile proofs and byte strings yield errors, never panics or runaway memory."""
import json, collections
import vlib
from checks.C11 import gates_program


def hostile_program(b, i, seed):
    p = gates_program(b["n"], 0, "host-n%d-L%d-R%d-%s" % (b["n"], b["nL"], b["nR"], b["zero"] or "shape"), seed + i)
    k = b["k"]
    edits = []
    for f, want in (("L", b["nL"]), ("R", b["nR"])):
        if want < k:
            edits += [{"how": "droplast", "f": f}] * (k - want)
        elif want > k:
            edits += [{"how": "push", "f": f, "v": 5 + j} for j in range(want - k)]
    z = b["zero"]
    if z in ("tx", "txb", "eb", "a", "b"):
        edits.append({"how": "set", "f": z, "v": 0})
    elif z:
        edits.append({"how": "setpt", "f": z, "v": 0})
    p["tamper"] = edits
    # the honest shape: whether it is accepted is completeness (C01); this property only asks for a value instead of a panic
    p["expect_p"] = ""
    p["expect_v"] = "" if b["expect"] == "ok" else b["expect"]
    return p


def site_of(row):
    t = " ".join(row["bad"])
    return "ipp-list-length-mismatch" if "panic" in t else "verdict"


def run(chk):
    q = chk.quick
    mx = (9, 6) if q else (12, 9)
    cfg = chk.path("host.cfg")
    open(cfg, "w").write("SPECIFICATION HSpec\nCONSTANTS\n  P = 31723\n  MaxN = %d\n  MaxLen = %d\n  LongLens = {31, 32, 33, 63, 64, 65, 70}\n"
                         "INVARIANT TotalVerifier\nINVARIANT ShapeGuardExact\n"
                         "INVARIANT MandatoryIdentityRejected\nINVARIANT Emit\nCHECK_DEADLOCK FALSE\n" % mx)
    r = vlib.tlc_mc(chk, "MC_Hostile.tla", cfg, workers=8)
    grid = vlib.behaviours_from(r["out"])
    progs = [hostile_program(b, i, chk.seed) for i, b in enumerate(grid)]
    chk.sample({"grid_point": grid[len(grid) // 2], "program": progs[len(grid) // 2]})
    # (B2) every grid point forced through from_bytes + verify under catch_unwind
    for c in vlib.REAL_CURVES:
        rows = vlib.replay(chk, c, progs, "host")
        for row in rows:
            chk.count_case([c, row["program"]["id"]])
            if row["bad"]:
                pr = row["program"]
                shape = [len([e for e in pr["tamper"] if e["f"] == "L"]), len([e for e in pr["tamper"] if e["f"] == "R"])]
                chk.violation("hostile-%s-%s" % (c, pr["id"]),
                              {"curve": c, "program": pr, "observed": {k: row[k] for k in ("pres", "vres", "decode")}, "mismatch": row["bad"],
                               "site": site_of(row)}, "; ".join(row["bad"]))
    # the same grid through batch_verify (alone, and next to an honest member of another size): a value, never a panic
    from checks.C07 import member, run_jobs
    bjobs = []
    for i, pr in enumerate(progs if not q else progs[::3]):
        ms = [dict(pr, expect_p="", expect_v="")]
        if i % 2:
            ms = ms + [member(3, "good", "hb%d" % i, chk.seed + i)]
        if i % 4 == 3:
            ms = list(reversed(ms))
        bjobs.append({"id": "hostile-batch-%d" % i, "members": ms, "seed": chk.seed + i, "kinds": ["hostile"] * len(ms), "expect": ""})
    for c in vlib.REAL_CURVES:
        rows, _ = run_jobs(chk, c, bjobs)
        for row in rows:
            chk.count_case([c, "batch", row["job"]["id"]])
            chk.cov["replayed_behaviours"] += 1
            panics = [b for b in row["bad"] if "panic" in b]
            if panics or row["batch"].startswith("panic"):
                chk.violation("hostile-batch-%s-%s" % (c, row["job"]["id"]), {"curve": c, "job": row["job"], "batch": row["batch"], "bad": row["bad"], "site": "batch-panic"},
                              "batch_verify over a hostile member: %s %s" % (row["batch"], "; ".join(panics)))
    # (B3) the same grid on toy31723: TLC follows the run and requires that an accepted proof has the shape the statement calls for (IdealShape)
    vlib.toy_ideal(chk, "toy31723", progs if not q else progs[::2], "TraceIdealShape", "hostile-shape-toy", "host31723")
    # seeded random and guided byte mutations: decode and verify must return values; decode memory stays proportional to the input
    n = 1500 if q else 60000
    shapes = [gates_program(n1, n2, "mut-%d-%d" % (n1, n2), chk.seed) for n1, n2 in ((0, 0), (1, 0), (3, 0), (2, 3), (8, 0))]
    for c in vlib.REAL_CURVES:
        import concurrent.futures as cf

        def one(pr):
            pp, op = chk.path("m_%s_%s.in" % (c, pr["id"])), chk.path("m_%s_%s.out" % (c, pr["id"]))
            vlib.write_ndjson(pp, [pr])
            try:
                vlib.harness("mutate", "--curve", c, "--programs", pp, "--n", n, "--seed", chk.seed, "--out", op)
            except vlib.Aborted as e:
                # the process itself died (e.g. an allocation sized from a count in the input): that is the property's "runaway memory / abort"
                return {"n": 0, "decoded": 0, "bad": [{"i": "abort", "what": "%s while decoding: %s" % (e, e.stderr.strip().splitlines()[0] if e.stderr.strip() else ""),
                                                       "bytes": e.case, "site": "decode-abort"}]}
            return vlib.read_ndjson(op)[0]

        with cf.ThreadPoolExecutor(max_workers=8) as ex:
            for pr, row in zip(shapes, ex.map(one, shapes)):
                chk.cov["evaluations"] += row.get("n", 0)
                chk.cov.setdefault("mutations_decoded", 0)
                chk.cov["mutations_decoded"] += row.get("decoded", 0)
                for b in row["bad"]:
                    if b == "honest run failed":
                        # no honest proof of this shape to mutate (completeness is C01's business): the shape is skipped
                        chk.cov["shapes_without_honest_proof"] = chk.cov.get("shapes_without_honest_proof", 0) + 1
                        continue
                    b = b if isinstance(b, dict) else {"what": b}
                    chk.violation("mutation-%s-%s-%s" % (c, pr["id"], b.get("i", "")),
                                  {"curve": c, "program": pr, "mutation": b, "site": "ipp-list-length-mismatch" if b.get("site") == "verify-panic" else "decode"},
                                  b.get("what", ""))
    chk.finish(
        rule="TLC enumerates the grid (gates 0..%d) x (|L|, |R|) in (0..%d)^2 (and lengths 31,32,33,63,64,65,70 around the shift-width boundaries) plus every single field of the honest shape forced to the identity / to "
             "zero, checks that the specification's verifier is total there (TotalVerifier, ShapeGuardExact, MandatoryIdentityRejected) and prints every "
             "point; each is built by surgery on an honest proof and run through from_bytes + verify under catch_unwind on secq256k1, zorro, curve25519 "
             "(any panic is a violation; the verdict must be the model's) and on toy31723 with the exact verdict; %d seeded byte mutations per shape "
             "and curve (bit flips, truncation, token swaps, counts 0..2^64-1, identity/zero tokens, insertions, random strings) must decode or fail "
             "with a value within 64*len+64KiB of allocation. distinct = distinct grid points per curve" % (mx[0], mx[1], n),
        assumptions=["panics are caught with catch_unwind in a harness built with panic=unwind; the crate's release profile aborts instead",
                     "every grid point is also run through batch_verify (alone and next to an honest member, both orders)"])


def replay(chk, path):
    case = json.load(open(path))["payload"]
    if vlib.replay_generic(chk, case):
        chk.finish(rule="re-validation of one recorded trace / batch job")
    if "program" in case and "mutation" not in case:
        rows = vlib.replay(chk, case["curve"], [case["program"]], "replay")
        for row in rows:
            if row["bad"]:
                chk.violation("hostile-replay", dict(case, mismatch=row["bad"], site=site_of(row)), "; ".join(row["bad"]))
    chk.finish(rule="replay of one recorded case")
