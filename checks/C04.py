"""C04 Proof integrity: no altered version of a valid proof is accepted."""
import json
import vlib
from checks.C07 import member


def edit_of(t):
    how, f = t["how"], t["f"]
    if how == "addpt":
        return {"how": "addpt", "f": f, "v": 5}
    if how == "add":
        return {"how": "add", "f": f, "v": 1}
    if how == "swap":
        return {"how": "swap", "f": f, "g": t["g"]}
    if how == "push":
        return {"how": "push", "f": f, "v": 9}
    return {"how": how, "f": f}


def two_phase(n, tag, seed):
    """a circuit whose gates are created in the randomized phase, with a challenge-dependent constraint"""
    mul = {"op": "allocmul", "l": 2, "r": 3}
    cb = [{"op": "chal", "label": "c"}] + [mul] * n + [{"op": "con", "lc": [["V", 0, {"k0": 1, "ch": 0, "k1": 2}], ["1", 0, 3]], "fix": 1}]
    cap = 1
    while cap < n + 1:
        cap *= 2
    return {"id": "%s-2ph-n%d" % (tag, n), "p": {"label": "verif", "ops": [{"op": "commit", "v": 5, "vb": 9}, mul, {"op": "defer", "cb": 0}], "cbs": [cb], "cap": cap},
            "seed": seed}


def run(chk):
    q = chk.quick
    # (B1) System end to end on the exact field model, random-oracle challenges (MC_Protocol: Completeness, RoleSync, FSBinding,
    # RejectsInvalid, MegaIdentity), with non-vacuity probes
    vlib.protocol_mc(chk)
    cfg = chk.path("tam.cfg")
    maxn = 5 if q else 9
    open(cfg, "w").write("SPECIFICATION TSpec\nCONSTANTS\n  P = 31723\n  MaxN = %d\nINVARIANT TInv\nINVARIANT Emit\nCHECK_DEADLOCK FALSE\n" % maxn)
    r = vlib.tlc_mc(chk, "MC_Tamper.tla", cfg, workers=8, timeout=3000)
    behs = vlib.behaviours_from(r["out"])
    progs = []
    for i, b in enumerate(behs):
        p = member(b["n"], "good", "tam%d" % i, chk.seed + i)
        p["tamper"] = [edit_of(b["tam"])]
        p["id"] = "tam-n%d-%s-%s%s" % (b["n"], b["tam"]["f"], b["tam"]["how"], "-" + b["tam"].get("g", "") if b["tam"].get("g") else "")
        p["expect_p"], p["expect_v"] = "ok", "reject_or_same"
        progs.append(p)
        if b["n"] in (1, 2) and not b["tam"]["f"].startswith(("L", "R")):
            p2 = two_phase(b["n"], "tam%d" % i, chk.seed + i)
            p2["tamper"] = [edit_of(b["tam"])]
            p2["id"] += "-%s-%s" % (b["tam"]["f"], b["tam"]["how"])
            p2["expect_p"], p2["expect_v"] = "ok", "reject_or_same"
            progs.append(p2)
    chk.sample({"tlc_behaviour": behs[len(behs) // 2], "program": progs[len(progs) // 2]})
    # (B2) every (shape, field, kind of alteration) on the 256-bit curves: decode error, identical object, or rejected
    for c in vlib.REAL_CURVES:
        rows = vlib.replay(chk, c, progs, "tam")
        for r_ in rows:
            # a verifier that crashes on an altered proof accepts nothing: crashes are C08's statement, not reported here
            if r_["bad"] and all(b.startswith("panic") or "got panic" in b for b in r_["bad"]):
                chk.cov["crashes_left_to_C08"] = chk.cov.get("crashes_left_to_C08", 0) + 1
                r_["bad"] = []
        vlib.report_replay(chk, rows, "integrity")
    # (B3) the same on toy79 / toy31723 with the exact verdict (lucky accepts must be the specification's too)
    # (B3) the same on toy31723: TLC follows both roles' calls and the wire, and requires that whatever the code accepted is the proof the
    # prover sent (IdealIntegrity over the code's own verdict; an acceptance must repeat under fresh randomness to count)
    # ... and that the verifier absorbed every proof element, as carried by the proof, before each challenge drawn after it - the combiner r on
    # the transcript fork included (IntegrityOrder): a weight that does not depend on an element lets a coordinated change of two elements cancel
    vlib.toy_ideal(chk, "toy31723", progs if not q else progs[::2], "TraceIdealIntegrity", "integrity-toy", "tam31723",
                   fl=dict(vlib.flags(), CMP_I="1"))
    # altered proofs presented together: batch_verify is verification too. Two copies of one proof whose final scalar is shifted by +d and by
    # -d are each rejected on their own and must not carry each other through a batch (alone, and between honest members)
    from checks.C07 import run_jobs
    bjobs = []
    for n in ((1, 3) if q else (0, 1, 2, 3, 5, 8)):
        plus, minus = member(n, "plus", "ib%d" % n, chk.seed + n), member(n, "minus", "ib%d" % n, chk.seed + n)
        good = [member(n + 1, "good", "ibg%d" % k, chk.seed + 100 + k) for k in range(2)]
        for k, ms in enumerate(([plus, minus], [minus, plus], [good[0], minus, good[1], plus])):
            bjobs.append({"id": "altered-pair-n%d-%d" % (n, k), "members": ms, "seed": chk.seed + 31 * n + k, "kinds": [m["id"] for m in ms], "expect": "reject"})
    for c in vlib.REAL_CURVES:
        rows, _ = run_jobs(chk, c, bjobs)
        for row in rows:
            chk.count_case([c, "batch", row["job"]["id"]])
            chk.cov["replayed_behaviours"] += 1
            if row["batch"] == "ok" or row["batch"].startswith("panic"):
                chk.violation("integrity-batch-%s-%s" % (c, row["job"]["id"]), {"curve": c, "job": row["job"], "individual": row["individual"], "batch": row["batch"]},
                              "a batch with two altered proofs (final scalar +d / -d; individually %s) returned %s" % (row["individual"], row["batch"]))
    # every single-bit flip of the encoding, exhaustively
    shapes = [member(2, "good", "flip", chk.seed), two_phase(1, "flip", chk.seed + 1)] if q else \
             [member(n, "good", "flip", chk.seed + n) for n in (0, 1, 2, 3, 5, 8)] + [two_phase(n, "flip", chk.seed + 20 + n) for n in (1, 2, 3)]
    import concurrent.futures as cf
    jobs = [(c, s) for c in vlib.REAL_CURVES for s in shapes]

    def one(job):
        c, s = job
        pp, op = chk.path("bf_%s_%s.in" % (c, s["id"])), chk.path("bf_%s_%s.out" % (c, s["id"]))
        vlib.write_ndjson(pp, [s])
        vlib.harness("bitflip", "--curve", c, "--programs", pp, "--stride", 1, "--out", op, timeout=7200)
        return vlib.read_ndjson(op)[0]

    flips = {}
    with cf.ThreadPoolExecutor(max_workers=12) as ex:
        for (c, s), row in zip(jobs, ex.map(one, jobs)):
            chk.cov["evaluations"] += row.get("bits", 0)
            for b in range(0, row.get("bits", 0), 997):
                chk.distinct.add("flip-%s-%s-%d" % (c, s["id"], b))
            flips["%s/%s" % (c, s["id"])] = {k: row.get(k) for k in ("bits", "decode_error", "same_object", "rejected", "accepted_different", "panics")}
            for b in row["bad"]:
                if b == "honest run failed":
                    chk.cov["shapes_without_honest_proof"] = chk.cov.get("shapes_without_honest_proof", 0) + 1      # completeness is C01's business
                    continue
                b = b if isinstance(b, dict) else {"what": b}
                chk.violation("bitflip-%s-%s-bit%s" % (c, s["id"], b.get("bit", "")), {"curve": c, "program": s, "flip": b}, "bit %s: %s" % (b.get("bit"), b.get("what")))
    chk.cov["bit_flip_sweeps"] = flips
    chk.finish(
        rule="TLC checks EveryFieldWeighted / EveryFieldAbsorbed on the verifier model (n <= %d, sampled proof values) and prints one behaviour per "
             "(gate count, field, alteration): add a point, negate, add 1 to a scalar, swap two fields, add / remove / duplicate / reorder rounds; each is "
             "applied to an honest proof (one- and two-phase circuits) and must be rejected (or decode to the identical object) on secq256k1, zorro, "
             "curve25519; on toy31723 TLC checks IdealIntegrity over the recorded runs and IntegrityOrder (every proof element absorbed before each later challenge, the fork's r included) on the verifier's recorded transcript operations; every single-bit flip of %d honest encodings per curve is tried "
             "exhaustively: decode error, identical object, or rejected by verify. distinct = distinct (curve, program, alteration) + sampled flip positions"
             % (maxn, len(shapes)),
        assumptions=["byte-level changes that decode to the identical proof object (unused flag bits, bytes after an infinity flag) are allowed, as the property states"])


def replay(chk, path):
    case = json.load(open(path))["payload"]
    if vlib.replay_generic(chk, case):
        chk.finish(rule="re-validation of one recorded trace / batch job")
    if "program" in case and "flip" not in case:
        rows = vlib.replay(chk, case["curve"], [case["program"]], "replay")
        vlib.report_replay(chk, rows, "integrity")
    chk.finish(rule="replay of one recorded case")
