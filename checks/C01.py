"""C01 Completeness: every satisfied constraint system yields an accepted proof."""
import json
import vlib
from checks import gadgets


def cap_variants(b, k):
    """the same behaviour at a larger prover / verifier capacity (both sides independently)"""
    pad = b["p"]["cap"]
    choices = [(pad + 1, pad), (pad, 2 * pad), (64, pad + 1), (2 * pad, 64)]
    cp, cv = choices[k % len(choices)]
    nb = json.loads(json.dumps(b))
    nb["p"]["cap"] = cp
    nb["v"] = dict(nb["p"], cap=cv)
    nb["id"] = b["id"] + "-cap%d-%d" % (cp, cv)
    nb.pop("rets", None)
    return nb


def run(chk):
    q = chk.quick
    # (B1) System end to end on the exact field model, random-oracle challenges (MC_Protocol: Completeness, RoleSync, FSBinding,
    # RejectsInvalid, MegaIdentity), with non-vacuity probes
    vlib.protocol_mc(chk)
    # (B1) the statement semantics the expectations rest on: DeviationIffUnsatisfied etc. on every rich program
    depth = 3 if q else 4
    behs = vlib.generate_behaviours(chk, depth, rich=True, name="rich")
    for b in behs:
        b.pop("rets", None)      # handles and gate counts are C16's business: only the results of prove and verify are judged here
    good = [b for b in behs if b["expect_v"] == "ok" and b["expect_p"] == "ok"]
    chk.sample({"tlc_behaviour": good[len(good) // 2]})
    # (B2) replay on the 256-bit curves: ideal verdict "accepted"
    extra = []
    for k, b in enumerate(good):
        if k % (3 if q else 2) == 0:
            extra.append(cap_variants(b, k))
        if k % (4 if q else 2) == 1:
            w = json.loads(json.dumps(b))
            w["wide"] = True
            w["id"] = b["id"] + "-wide"
            extra.append(w)
    for c in vlib.REAL_CURVES:
        rows = vlib.replay(chk, c, good + extra, "c01")
        vlib.report_replay(chk, rows, "completeness")
    # the repository's own gadgets (k-shuffle with a randomized closure, range proof by bit decomposition, example gadget) with true statements
    gad = [dict(p, expect_p="ok", expect_v="ok") for p, holds in gadgets.workload(chk.seed, q) if holds]
    for c in vlib.REAL_CURVES:
        vlib.report_replay(chk, vlib.replay(chk, c, gad, "gadgets"), "completeness-gadget")
    vlib.toy_traces(chk, "toy31723", "gadgets", 0, vlib.flags(E=1), "toy-completeness-gadget", cfgname="TraceIdealCompleteness",
                    progs=[dict(p, expect_p="", expect_v="") for p in gad], name="gad31723")
    # (B3) seeded random honest programs on toy curves: TLC evaluates the statement (Satisfied, SameStatement) on the
    # recorded calls and demands acceptance unless a degenerate event (zero challenge, identity commitment) occurred
    n = 240 if q else 4000
    for curve in ["toy79", "toy31723"]:
        progs = vlib.genprogs(chk, chk.seed, n, vlib.TOY_P[curve], "honest", "honest_" + curve)
        tp, sums = vlib.record(chk, curve, progs, "honest_" + curve)
        acc, rej = vlib.validate_traces(chk, tp, curve, flags=vlib.flags(E=1), cfgname="TraceIdealCompleteness")
        vlib.report_rejects(chk, rej, "toy-completeness")
        for p in progs[:1]:
            chk.sample({"random_program": p})
    # "small" programs: free constraints (no by-construction constants) over values and coefficients from -2 .. 3 - whether the statement
    # holds is decided by the assignment alone, and the specification's Satisfied() is the oracle: satisfied => proved and accepted
    ns = 500 if q else 6000
    small = vlib.genprogs(chk, chk.seed + 31, ns, vlib.TOY_P["toy31723"], "small", "small")
    vlib.toy_ideal(chk, "toy31723", small, "TraceIdealCompleteness", "toy-completeness-small", "small31723", fl=vlib.flags(E=1))
    chk.finish(
        rule="TLC (MC_Builder, Rich) enumerates every program of at most %d calls built from commit/allocate/allocate_multiplier/multiply/"
             "constrain/defer/phase switch/challenge with linear-combination templates over returned handles and by-construction constants; "
             "the behaviours whose model assignment satisfies every constraint and gate are replayed on secq256k1, zorro and curve25519 (plus "
             "capacity and full-width-value variants) and must prove and verify; seeded random honest programs run on toy79/toy31723 are "
             "validated by TLC (IdealCompleteness over the recorded calls), and so are random programs with free constraints over small values (satisfied or not by the assignment alone; the specification's Satisfied is the oracle). distinct = distinct (curve, program) pairs with >= 1 call" % depth,
        assumptions=["ideal verdicts on 256-bit curves ignore events of probability ~2^-250",
                     "on toy curves runs that hit a zero challenge or an identity commitment are validated up to that event only"])


def replay(chk, path):
    case = json.load(open(path))["payload"]
    if vlib.replay_generic(chk, case):
        chk.finish(rule="re-validation of one recorded trace / batch job")
    if "program" in case:
        rows = vlib.replay(chk, case["curve"], [case["program"]], "replay")
        vlib.report_replay(chk, rows, "completeness")
    chk.finish(rule="replay of one recorded case")
