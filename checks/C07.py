"""C07 Batch verification accepts exactly when every instance verifies individually."""
import json, itertools
import vlib


def member(n, kind, tag, seed, d=3):
    mul = {"op": "allocmul", "l": 2, "r": 3}
    ops = [{"op": "commit", "v": 5, "vb": 9}] + [mul] * n
    lc = [["V", 0, 3], ["1", 0, 4]] + ([["O", n - 1, 2], ["L", 0, -1]] if n > 0 else [])
    con = {"op": "con", "lc": lc, "fix": 1}
    if kind == "badwit":
        con["delta"] = 1
    ops.append(con)
    cap = 1
    while cap < n:
        cap *= 2
    p = {"id": "%s-%s-n%d" % (tag, kind, n), "p": {"label": "verif", "ops": ops, "cbs": [], "cap": cap}, "seed": seed}
    if kind == "tamper":
        p["tamper"] = [{"how": "add", "f": "tx", "v": 1}]
    elif kind == "plus":
        p["tamper"] = [{"how": "add", "f": "b", "v": d}]
    elif kind == "minus":
        p["tamper"] = [{"how": "add", "f": "b", "v": -d}]
    elif kind in ("t1", "t3"):
        p["tamper"] = [{"how": "add", "f": "b", "v": d}]
    elif kind == "t2":
        p["tamper"] = [{"how": "add", "f": "b", "v": -2 * d}]
    return p


def jobs_from(chk, pats, with_orders):
    jobs = []
    for i, pat in enumerate(pats):
        n = len(pat["kinds"])
        base_seed = chk.seed * 7919 + i
        pair_size = None
        members = []
        for j, (kd, sz) in enumerate(zip(pat["kinds"], pat["sizes"])):
            if kd in ("plus", "minus", "t1", "t2", "t3"):
                # the same proof, its final scalar shifted by +d and by -d
                pair_size = pair_size if pair_size is not None else sz
                members.append(member(pair_size, kd, "b%d-m%d" % (i, j), base_seed + 1000))
            else:
                members.append(member(sz, kd, "b%d-m%d" % (i, j), base_seed + j))
        orders = list(itertools.permutations(range(n))) if with_orders and n <= 3 else [tuple(range(n))]
        for o in orders:
            jobs.append({"id": "batch-%d-%s" % (i, "".join(map(str, o))), "members": [members[k] for k in o], "seed": base_seed + 77,
                         "kinds": [pat["kinds"][k] for k in o], "expect": pat["expect"]})
    return jobs


def run_jobs(chk, curve, jobs, trace=False):
    import concurrent.futures as cf
    n = 8
    parts = [jobs[i::n] for i in range(n)]

    def one(i):
        jp, op, tp = chk.path("bj_%s_%d.in" % (curve, i)), chk.path("bj_%s_%d.out" % (curve, i)), chk.path("bj_%s_%d.tr" % (curve, i))
        vlib.write_ndjson(jp, parts[i])
        args = ["batch", "--curve", curve, "--jobs", jp, "--out", op] + (["--trace", tp] if trace else [])
        vlib.harness(*args)
        return vlib.read_ndjson(op), (tp if trace else None)

    rows, traces = [], []
    with cf.ThreadPoolExecutor(max_workers=n) as ex:
        for part, (rs, tp) in zip(parts, ex.map(one, range(n))):
            for j, r in zip(part, rs):
                r["job"] = j
                rows.append(r)
            if tp:
                traces.append(tp)
    return rows, traces


def run(chk):
    q = chk.quick
    cfg = chk.path("batch.cfg")
    maxn = 3 if q else 4
    open(cfg, "w").write("SPECIFICATION BSpec\nCONSTANTS\n  P = 7\n  MaxN = %d\n  SharedWeight = FALSE\n  AffineWeight = FALSE\nINVARIANT BInv\nINVARIANT Emit\nCHECK_DEADLOCK FALSE\n" % maxn)
    r = vlib.tlc_mc(chk, "MC_Batch.tla", cfg, workers=8, timeout=3000)
    pats = vlib.behaviours_from(r["out"])
    # non-vacuity of BatchCorrelated: the shared-weight design must violate it
    cfgm = chk.path("batch_mut.cfg")
    open(cfgm, "w").write(open(cfg).read().replace("SharedWeight = FALSE", "SharedWeight = TRUE"))
    rm = vlib.tlc("MC_Batch.tla", cfgm, chk.path("mcbm"), workers=4, timeout=900)
    if not (rm["error"] and "Invariant" in rm["error"]):
        raise vlib.ToolError("spec mutant 'one weight for all instances' does not violate BatchCorrelated: the model is vacuous")
    chk.cov["spec_mutant_shared_weight_rejected_by_model"] = True
    # ... and the design with weights affine in the position (two draws for the whole batch) must violate BatchIff on the (+d, -2d, +d) triple
    cfga = chk.path("batch_aff.cfg")
    open(cfga, "w").write(open(cfg).read().replace("AffineWeight = FALSE", "AffineWeight = TRUE"))
    ra = vlib.tlc("MC_Batch.tla", cfga, chk.path("mcba"), workers=4, timeout=900)
    if not (ra["error"] and "Invariant" in ra["error"]):
        raise vlib.ToolError("spec mutant 'weights affine in the position' does not violate BatchIff: the model is vacuous")
    chk.cov["spec_mutant_affine_weight_rejected_by_model"] = True
    # the same law over the full verifier algebra: members are complete runs of System (prover, wire, adversary, verifier)
    vlib.batchsys_mc(chk)
    jobs = jobs_from(chk, pats, with_orders=True)
    # larger batches: one invalid member at each position of 6 / 12, and the +-d pair embedded among valid members
    big = 6 if q else 12
    extra = []
    for pos in range(big):
        kinds = ["good"] * big
        kinds[pos] = "tamper" if pos % 2 else "badwit"
        extra.append({"kinds": kinds, "sizes": [(3 * i + 1) % 6 for i in range(big)], "expect": "reject"})
    kinds = ["good"] * big
    kinds[1], kinds[big - 2] = "plus", "minus"
    extra.append({"kinds": kinds, "sizes": [(3 * i + 1) % 6 for i in range(big)], "expect": "reject"})
    kinds = ["good"] * big
    kinds[1], kinds[2], kinds[3] = "t1", "t2", "t3"
    extra.append({"kinds": kinds, "sizes": [(3 * i + 1) % 6 for i in range(big)], "expect": "reject"})
    extra.append({"kinds": ["good"] * big, "sizes": [(3 * i + 1) % 6 for i in range(big)], "expect": "ok"})
    extra.append({"kinds": [], "sizes": [], "expect": "ok"})          # the empty batch: nothing to reject
    jobs += [dict(j, id="big-" + j["id"]) for j in jobs_from(chk, extra, with_orders=False)]
    chk.sample({"pattern": pats[len(pats) // 2], "job": {k: jobs[len(jobs) // 2][k] for k in ("id", "kinds", "expect")}})
    # (B2) 256-bit curves: batch verdict = conjunction of the individual verdicts observed in the same run; no panic
    for c in vlib.REAL_CURVES:
        rows, _ = run_jobs(chk, c, jobs)
        for row in rows:
            chk.count_case([c, row["job"]["kinds"], [m["id"] for m in row["job"]["members"]]])
            chk.cov["replayed_behaviours"] += 1
            bad = list(row["bad"])
            # (whether each member verifies on its own is the business of C01..C05; this property relates the batch to the members'
            #  own verdicts, which row["bad"] already does)
            if bad:
                chk.violation("batch-%s-%s" % (c, row["job"]["id"]), {"curve": c, "job": row["job"], "individual": row["individual"], "batch": row["batch"], "bad": bad},
                              "; ".join(bad))
        # a shared generator table that is too small for one member: clean error, no panic (C17 for batch_verify)
        small = [dict(jobs[0], id="smallcap", cap=0, members=[member(5, "good", "sc", chk.seed)])]
        rows, _ = run_jobs(chk, c, small)
        for row in rows:
            if row["batch"] != "InvalidGeneratorsLength" or row["bad"]:
                chk.violation("batch-capacity-%s" % c, {"curve": c, "job": row["job"], "batch": row["batch"], "bad": row["bad"]},
                              "batch with too few generators returned %s" % row["batch"])
    # (B3) toy curves: every member run is validated by TLC, and the batch verdict must equal BatchVerdict of the specification's
    # individual results under the recorded weights (one scalar per instance)
    tjobs = jobs if not q else jobs[::2]
    for curve in ["toy79", "toy31723"]:
        rows, traces = run_jobs(chk, curve, tjobs, trace=True)
        merged = chk.path("batch_%s.ndjson" % curve)
        with open(merged, "w") as f:
            for tp in traces:
                f.write(open(tp).read())
        acc, rej = validate_batches(chk, merged, curve)
        byid = {j["id"]: j for j in tjobs}
        for rj in rej:
            ev = rj.get("event", {})
            job = byid.get(ev.get("job"))
            if ev.get("ev") == "batch" and ev.get("res") == "ok" and job is not None:
                # the batch accepted although a member is rejected on its own and the specification's weighted sum of ITS residuals does not
                # vanish. On a 79- or 31723-element group that can still be a coincidence of the code's own (possibly differently weighted)
                # residuals under these weights: draw other weights. Luck does not repeat; a batch rule that lets invalid members through does.
                again = []
                for k in (1, 2):
                    rows2, _ = run_jobs(chk, curve, [dict(job, seed=job["seed"] + 7919 * k, id=job["id"] + "-w%d" % k)])
                    again.append(rows2[0]["batch"] == "ok")
                if not all(again):
                    chk.cov["lucky_batch_accepts_explained"] = chk.cov.get("lucky_batch_accepts_explained", 0) + 1
                    continue
            chk.violation("batch-trace-%s-%d" % (curve, len(chk.violations)), rj, "batch trace rejected: %s" % rj.get("reason", ""))
        # (panics on toy curves come from zero challenges - inverse().unwrap() - and are degenerate events; the 256-bit runs police panics)
    chk.finish(
        rule="TLC model-checks BatchIff and BatchCorrelated over F_7 for every pattern of <= %d members of kinds {valid, tampered, bad witness, +d, -d} "
             "(and requires the shared-weight spec mutant to fail), and MC_BatchSys over the full verifier algebra: batches whose members are complete runs of System "
             "(honest, altered in transit, broken witness, failing early, and the same proof with b + 1 / b - 1) join with their combined residual - accepted iff "
             "every member is, the first early failure is the batch's result, the pair's residuals are opposite, the shared-weight design fails; every pattern, in every order (<= 3 members), plus batches of %d with one invalid "
             "member at each position and with the +-d pair embedded, is run on the real batch_verify: on the 256-bit curves the verdict must be the "
             "conjunction of the individual verdicts; on toy79/toy31723 TLC recomputes each member's combined residual and the batch verdict from the "
             "recorded weights. distinct = distinct (curve, member list)" % (maxn, big),
        assumptions=["the +-d pair shifts the final inner-product scalar b, which no challenge depends on",
                     "batch weights are recovered by replaying ScalarField::rand over the caller's seeded RNG (one draw per instance, checked)"])


def validate_batches(chk, trace_file, curve, jobs=12):
    """split a batch trace at batch_begin events and validate groups in parallel"""
    events = vlib.read_ndjson(trace_file)
    groups, cur = [], []
    for e in events:
        if e.get("ev") == "batch_begin" and cur:
            groups.append(cur)
            cur = []
        cur.append(e)
    if cur:
        groups.append(cur)
    import concurrent.futures as cf
    n = max(1, min(jobs, len(groups) // 10 or 1))
    chunks = [groups[i::n] for i in range(n)]
    rejects, accepted = [], 0

    def one(i):
        pending, out, acc = chunks[i], [], 0
        rnd = 0
        while pending and rnd < 6:
            p = chk.path("bt_%s_%d_%d.ndjson" % (curve, i, rnd))
            vlib.write_ndjson(p, [e for g in pending for e in g])
            r = vlib.tlc("Trace.tla", "Trace_%s.cfg" % curve, chk.path("btm_%s_%d_%d" % (curve, i, rnd)), workers=1, env=dict(vlib.flags(), TRACE=p), timeout=1500)
            nev = sum(len(g) for g in pending)
            if r["error"] is None and r["depth"] == nev + 1:
                acc += len(pending)
                break
            import re
            m = re.search(r'"first unmatched event",\s*(\d+)', r["out"])
            if not m:
                raise vlib.ToolError("TLC failed on a batch trace: %s" % r["error"])
            idx = int(m.group(1))
            k, gi = 0, None
            for j, g in enumerate(pending):
                if k < idx <= k + len(g):
                    gi = j
                    break
                k += len(g)
            g = pending[gi]
            out.append({"curve": curve, "reason": "event %d (%s) of the batch group is not explained by the specification" % (idx - k, g[idx - k - 1].get("ev")),
                        "event": g[idx - k - 1], "trace": g})
            acc += gi
            pending = pending[gi + 1:]
            rnd += 1
        return acc, out

    with cf.ThreadPoolExecutor(max_workers=n) as ex:
        for acc, out in ex.map(one, range(n)):
            accepted += acc
            rejects += out
    chk.cov["traces_validated_against_impl"] += accepted
    return accepted, rejects


def replay(chk, path):
    case = json.load(open(path))["payload"]
    if vlib.replay_generic(chk, case):
        chk.finish(rule="re-validation of one recorded trace / batch job")
    if "job" in case:
        rows, _ = run_jobs(chk, case["curve"], [case["job"]])
        for row in rows:
            exp_ok = all(k == "good" for k in case["job"]["kinds"])
            if row["bad"] or (row["batch"] == "ok") != exp_ok:
                chk.violation("batch-replay", dict(case, batch=row["batch"], individual=row["individual"]), "batch verdict %s" % row["batch"])
    chk.finish(rule="replay of one recorded batch")
