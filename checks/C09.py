"""C09 Hiding: every commitment carries fresh independent blinding from the prover RNG."""
import json
import vlib
from checks.C07 import member
from checks.C04 import two_phase
from checks.C11 import SIZES


def split_proof(hexs, curve):
    pt, sc = SIZES[curve]
    b = bytes.fromhex(hexs)
    names = ["AI1", "AO1", "S1", "AI2", "AO2", "S2", "T1", "T3", "T4", "T5", "T6"]
    out, o = {}, 0
    for n in names:
        out[n] = b[o:o + pt]
        o += pt
    for n in ["tx", "txb", "eb"]:
        out[n] = b[o:o + sc]
        o += sc
    kl = int.from_bytes(b[o:o + 8], "little")
    o += 8
    for j in range(kl):
        out["L%d" % (j + 1)] = b[o:o + pt]
        o += pt
    kr = int.from_bytes(b[o:o + 8], "little")
    o += 8
    for j in range(kr):
        out["R%d" % (j + 1)] = b[o:o + pt]
        o += pt
    out["a"] = b[o:o + sc]
    out["b"] = b[o + sc:o + 2 * sc]
    return out


def run(chk):
    q = chk.quick
    cfg = chk.path("hid.cfg")
    open(cfg, "w").write("SPECIFICATION HSpec\nCONSTANTS\n  P = 31723\n  MaxN1 = %d\n  MaxN2 = %d\nINVARIANT HInv\nCHECK_DEADLOCK FALSE\n" % ((3, 2) if q else (5, 4)))
    for k in range(2 if q else 6):
        r = vlib.tlc("MC_Hiding.tla", cfg, chk.path("mch%d" % k), workers=8, timeout=3000, seed=chk.seed * 100 + k)
        if r["error"] or r["states"] == 0:
            vlib.log(r["out"][-3000:])
            raise vlib.ToolError("MC_Hiding: %s" % r["error"])
        chk.cov["states"] += r["distinct"]
        chk.cov["transitions"] += r["states"]
    # (B3) toy curves: the emitted proof must be, field by field, what the reference prover computes from the witness and the
    # recorded RNG stream (each blinding role its own draw, DrawCount draws in all), and the RNG must be built from the transcript,
    # one rekey per commitment blinding factor, and 32 bytes of the caller's randomness
    fl = vlib.flags(P=1, R=1, E=1)
    for i, (curve, kind, n) in enumerate([("toy31723", "honest", 300 if q else 6000), ("toy31723", "free", 200 if q else 4000), ("toy31723", "badwit", 100 if q else 2000)]):
        name = "%s_%s" % (kind, curve)
        progs = vlib.genprogs(chk, chk.seed + 30 + i, n, vlib.TOY_P[curve], kind, name)
        for p in progs:
            # which draw plays which role is found out by intervention on the RNG stream (one disturbed draw per re-run): the specification
            # demands a bijection between used draws and roles and compares with the reference prover role by role, not position by position
            p["roles"] = True
        tp, sums = vlib.record(chk, curve, progs, name)
        acc, rej = vlib.validate_traces(chk, tp, curve, flags=fl)
        for p in progs:
            chk.count_case([curve, p["p"]])
        chk.sample({"curve": curve, "program": progs[min(3, len(progs) - 1)]})
        # the emitted proof is not the reference prover's. Is it the blinding that deviates?  (judged run by run, a few at a time)
        def judge(k_rj):
            k, rj = k_rj
            tag = "_j%d" % k
            one = chk.path("one%s.ndjson" % tag)
            vlib.write_ndjson(one, rj["run"])
            a_h, r_h = vlib.validate_traces(chk, one, curve, flags=vlib.flags(H=1), tag=tag, jobs=1)
            if r_h:
                # the constraint-system bookkeeping itself differs from the specification (C16's business): the reference prover would be
                # fed a different assignment layout, so it is no yardstick for this run
                return "differs"
            a_b, r_b = vlib.validate_traces(chk, one, curve, flags=dict(vlib.flags(R=1, E=1), CMP_B="1"), tag=tag, jobs=1)
            if r_b:
                # the weight-independent part already differs: draw count, a witness-bearing or masking commitment, e_blinding, RNG construction
                return "blinding"
            a_v, r_v = vlib.validate_traces(chk, one, curve, flags=vlib.flags(V=1), tag=tag, jobs=1)
            accepted = any(e.get("ev") == "end" and e.get("vres") == "ok" for e in rj["run"])
            if not r_v and accepted:
                # the reference verifier accepts this proof exactly as the code does, so the protocol is the reference protocol and the remaining
                # difference (polynomial commitments T_k, t_x_blinding) lies in the prover's blinding
                return "blinding-poly"
            # prover and verifier both deviate from the reference protocol in the same run: what is proved changed (C18's business),
            # and the reference prover is no yardstick for this run's polynomial blindings
            return "differs"

        import concurrent.futures as cf
        first = list(enumerate(rej))[:24]
        with cf.ThreadPoolExecutor(max_workers=8) as ex:
            verdicts = list(ex.map(judge, first))
            if len(rej) > len(first):
                if len(set(verdicts)) == 1:
                    # two dozen rejected runs all judged alike: the same cause is assumed for the rest of this workload (each is still reported
                    # with its own trace); a mixed picture is judged run by run
                    verdicts += [verdicts[0]] * (len(rej) - len(first))
                    chk.cov["rejections_judged_by_extrapolation"] = chk.cov.get("rejections_judged_by_extrapolation", 0) + len(rej) - len(first)
                else:
                    verdicts += list(ex.map(judge, list(enumerate(rej))[len(first):]))
        for rj, vd in zip(rej, verdicts):
            if vd == "differs":
                chk.cov["runs_not_judged_protocol_differs"] = chk.cov.get("runs_not_judged_protocol_differs", 0) + 1
            else:
                vlib.report_rejects(chk, [rj], vd)
    # differential runs on the 256-bit curves: different external randomness => no shared component except the statement-fixed ones;
    # the same randomness => the same proof
    shapes = [member(0, "good", "hid", 1), member(1, "good", "hid", 1), member(3, "good", "hid", 1), two_phase(1, "hid", 1), two_phase(3, "hid", 1)]
    if not q:
        shapes += [member(n, "good", "hid", 1) for n in (2, 5, 8)] + [two_phase(n, "hid", 1) for n in (2, 5)]
    for c in vlib.REAL_CURVES:
        progs = []
        for s in shapes:
            for sd in (chk.seed + 11, chk.seed + 11, chk.seed + 12, chk.seed + 13):
                progs.append(dict(s, seed=sd, id="%s-seed%d-%d" % (s["id"], sd, len(progs)), expect_p="", expect_v=""))   # verdicts are not this property's business
        rows = vlib.replay(chk, c, progs, "hid", jobs=4)
        vlib.report_replay(chk, rows, "hiding-run")
        by = {}
        for r_ in rows:
            by.setdefault(r_["program"]["id"].rsplit("-seed", 1)[0], []).append(r_)
        for sid, rs in by.items():
            rs.sort(key=lambda r_: int(r_["program"]["id"].rsplit("-", 1)[1]))
            if any(not r_.get("proof") for r_ in rs):
                continue
            p = [split_proof(r_["proof"], c) for r_ in rs]
            n_gates = sum(1 for o in rs[0]["program"]["p"]["ops"] if o["op"] == "allocmul") + sum(1 for cb in rs[0]["program"]["p"]["cbs"] for o in cb if o["op"] == "allocmul")
            n2 = sum(1 for cb in rs[0]["program"]["p"]["cbs"] for o in cb if o["op"] == "allocmul")
            fixed = set(["AI2", "AO2", "S2"] if n2 == 0 else []) | set(["tx", "a", "b"] if n_gates == 0 else [])
            chk.count_case([c, sid])
            if rs[0]["proof"] != rs[1]["proof"]:
                chk.violation("hiding-determinism-%s-%s" % (c, sid), {"curve": c, "program": rs[0]["program"]}, "the same external randomness gave two different proofs")
            for a, b in ((0, 2), (0, 3), (2, 3)):
                shared = [f for f in p[a] if f in p[b] and p[a][f] == p[b][f] and f not in fixed]
                moved = [f for f in fixed if p[a][f] != p[b][f]]
                if shared or moved:
                    chk.violation("hiding-differential-%s-%s" % (c, sid),
                                  {"curve": c, "program": rs[a]["program"], "seeds": [rs[a]["program"]["seed"], rs[b]["program"]["seed"]], "shared": shared, "moved_fixed": moved},
                                  "proofs under different external randomness share %s (statement-fixed components that moved: %s)" % (shared, moved))
    chk.finish(
        rule="TLC checks NonceInjective (exactly DrawCount draws, each one changes the proof, statement-fixed components never move) and BlindingPresent "
             "on the reference prover for every shape n1 <= %d, n2 <= %d with sampled values; for every recorded toy31723 run the harness finds out by intervention which draw of the prover's RNG "
             "stream plays which role; TLC demands a bijection between the used draws and the protocol's roles and that the emitted proof equals the reference "
             "prover's output on the witness and those draws, role by role (every blinding scalar its own fresh draw; the order of draws is not assumed), with the RNG "
             "built as fork + one rekey per commitment blinding (in any order) + finalize over 32 external bytes; on the 256-bit curves proofs of the same statement "
             "under three external seeds share no component outside FixedComponents and the same seed reproduces the proof. distinct = programs" % ((3, 2) if q else (5, 4)),
        assumptions=["which RNG draw plays which role is determined by intervention (the k-th draw is disturbed through the traced Merlin copy and the "
                     "first group of commitments that moves names its role); the order of the draws is therefore not assumed. Runs whose roles cannot "
                     "be told apart (two generators coincide on the toy group; a disturbed value rejected by the sampler) are not judged",
                     "nonces are recovered by replaying arkworks' UniformRand over the recorded transcript-RNG output"])


def replay(chk, path):
    case = json.load(open(path))["payload"]
    if "trace" in case:
        tp = chk.path("replay.ndjson")
        vlib.write_ndjson(tp, case["trace"])
        acc, rej = vlib.validate_traces(chk, tp, case["curve"], flags=case.get("flags"))
        vlib.report_rejects(chk, rej, "blinding")
    chk.finish(rule="re-validation of one recorded trace")
