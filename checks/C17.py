"""C17 Too few generators gives a clean error at exactly the padded-size threshold."""
import json, collections
import vlib


def run(chk):
    q = chk.quick
    mx = (5, 5, 9) if q else (9, 9, 17)
    cfg = chk.path("cap.cfg")
    open(cfg, "w").write("SPECIFICATION CSpec\nCONSTANTS\n  P = 31723\n  MaxN1 = %d\n  MaxN2 = %d\n  MaxCap = %d\n"
                         "INVARIANT ThresholdExact\nINVARIANT Emit\nCHECK_DEADLOCK FALSE\n" % mx)
    r = vlib.tlc_mc(chk, "MC_Capacity.tla", cfg, workers=8)
    grid = vlib.behaviours_from(r["out"])
    full = (mx[0] + 1) * (mx[1] + 1) * (mx[2] + 1) ** 2
    halves = (mx[0] * (mx[1] + 1) + (mx[0] + 1) * mx[1]) * (2 * (mx[2] + 1) - 1)
    if len(grid) != full + halves:
        raise vlib.ToolError("grid incomplete: %d" % len(grid))
    progs = []
    for i, g in enumerate(grid):
        key = "n%d-%d%s" % (g["n1"], g["n2"], "" if g["st"] == "full" else "-" + g["st"])
        seed = 1000 * chk.seed + 17 * g["n1"] + g["n2"]
        # (A) the prover at capacity cp
        a = {"id": "capP-%s-cp%d-cv%d" % (key, g["p"]["cap"], g["vcap"]), "p": g["p"], "seed": seed, "expect_p": g["expect_p"], "vskip": True}
        if g["expect_p"] == "ok":
            a["expect_p"] = ""       # "proceeds": judged below (not the capacity error)
        a["model_p"] = g["expect_p"]
        if g["vcap"] == 0:       # one prover run per (n1, n2, cp)
            progs.append(a)
        if g["st"] != "full" and g["p"]["cap"] != 0:
            continue             # half-open shapes: the verifier's axis at cp = 0 only (the proof is made at a sufficient capacity anyway)
        # (B) the verifier at capacity cv, against a proof made with sufficient prover capacity max(cp, pad)
        pc = max(g["p"]["cap"], g["pad"])
        # at or above the threshold the verifier "proceeds": the result is not the capacity error, and (below) does not depend on the capacity
        b = {"id": "capV-%s-cp%d-cv%d" % (key, pc, g["vcap"]), "p": dict(g["p"], cap=pc), "v": dict(g["p"], cap=g["vcap"]),
             "seed": seed, "expect_p": "", "expect_v": g["expect_v"] if g["expect_v"] == "InvalidGeneratorsLength" else "", "key": key,
             "model_v": g["expect_v"]}
        progs.append(b)
    chk.sample({"grid_point": grid[len(grid) // 3]})
    for c in vlib.REAL_CURVES + ["toy31723"]:
        ps = progs
        if c not in vlib.REAL_CURVES:
            # toy curve: thresholds and error kinds only (accept/reject coincidences are C03's business)
            ps = [dict(p, expect_v=p.get("expect_v") if p.get("expect_v") == "InvalidGeneratorsLength" else "") for p in progs]
        rows = vlib.replay(chk, c, ps, "cap")
        vlib.report_replay(chk, rows, "threshold")
        verdicts = collections.defaultdict(set)
        for r_ in rows:
            pr = r_["program"]
            if pr.get("model_p") == "ok" and r_["pres"] == "InvalidGeneratorsLength":
                chk.violation("threshold-%s-%s" % (c, pr["id"]), {"curve": c, "program": pr, "observed": r_["pres"]}, "prove reports too few generators at a sufficient capacity")
            if pr.get("model_v") == "ok" and r_["pres"] == "ok":
                if r_["vres"] == "InvalidGeneratorsLength":
                    chk.violation("threshold-%s-%s" % (c, pr["id"]), {"curve": c, "program": pr, "observed": r_["vres"]}, "verify reports too few generators at a sufficient capacity")
                verdicts[pr["key"]].add(r_["vres"])
        for k, v in verdicts.items():
            if len(v) > 1:
                chk.violation("verdict-capacity-dependence-%s-%s" % (c, k), {"curve": c, "key": k, "verdicts": sorted(v)}, "the verdict depends on the generator capacity for %s on %s: %s" % (k, c, sorted(v)))
        # the proof does not depend on how much larger the capacity is: same seed, same program => same bytes
        byk = collections.defaultdict(set)
        for r_ in rows:
            if r_.get("proof") and r_["program"].get("key"):
                byk[r_["program"]["key"]].add(r_["proof"])
        for k, v in byk.items():
            if len(v) > 1:
                chk.violation("capacity-dependence-%s-%s" % (c, k), {"curve": c, "key": k, "distinct_proofs": len(v)},
                              "proof bytes depend on the generator capacity for %s on %s" % (k, c))
    # batch_verify over the same threshold: one shared table; the padded size of the largest member decides (TLC's grid supplies
    # (n1, n2); a second, smaller member rides along in half of the batches), every capacity from 0 to one above the threshold
    from checks.C07 import member, run_jobs
    from checks.C04 import two_phase
    jobs = []
    shapes = sorted({(g["n1"], g["n2"]) for g in grid})
    for (n1, n2) in shapes:
        if n2 > 0 and n1 != 1:
            continue                     # two_phase() has one first-phase gate; the one-phase shapes cover every size
        big = member(n1, "good", "cb", chk.seed) if n2 == 0 else two_phase(n2, "cb", chk.seed)
        n = n1 + n2
        pad = 1
        while pad < n:
            pad *= 2
        for cap in range(0, pad + 2):
            for extra in ([], [member(max(n - 2, 0), "good", "cbx", chk.seed + 1)]):
                ms = [big] + extra
                jobs.append({"id": "capB-n%d-%d-cap%d-%d" % (n1, n2, cap, len(ms)), "members": ms, "seed": chk.seed + 5, "cap": cap,
                             "kinds": ["good"] * len(ms), "expect": "InvalidGeneratorsLength" if cap < pad else "ok"})
                jobs.append(dict(jobs[-1], id=jobs[-1]["id"] + "r", members=list(reversed(ms))))
    for c in vlib.REAL_CURVES:           # (not on toy curves: a zero challenge - inverse().unwrap() - is a degenerate event there)
        rows, _ = run_jobs(chk, c, jobs)
        for row in rows:
            j = row["job"]
            chk.count_case([c, "batch", j["id"]])
            chk.cov["replayed_behaviours"] += 1
            got = row["batch"]
            bad = got.startswith("panic") or (j["expect"] == "InvalidGeneratorsLength") != (got == "InvalidGeneratorsLength")
            if bad:
                chk.violation("threshold-batch-%s-%s" % (c, j["id"]), {"curve": c, "job": j, "batch": got},
                              "batch_verify with capacity %d returned %s; the threshold says %s" % (j["cap"], got, j["expect"]))
    # (B1) the composed machine: table histories x byte-level adversary through System's prover and verifier (MC_Library)
    vlib.library_mc(chk, probes=("NV_CapErrorP", "NV_CapErrorV", "NV_AcceptedAfterIncrease"))
    # (B3) sessions on toy curves in which the capacity is the state of a generator table with a history (new, increases, copies): prove / verify
    # report InvalidGeneratorsLength exactly when the specification's table capacity is below the padded gate count (nothing else is compared)
    for curve, n in (("toy31723", 200 if q else 3000),):
        # (the tables' contents and histories are C12's business: here a table is taken with the capacity it reports)
        vlib.session_traces(chk, curve, n, dict(vlib.flags(), CMP_K="1"), "threshold-session", seed_off=60)
    chk.finish(
        rule="TLC enumerates the full grid (n1, n2, capP, capV) in (0..%d)x(0..%d)x(0..%d)^2, checks ThresholdExact on the guards the protocol "
             "model uses, and prints the expected result of prove and verify for every point (and again with the last gate of the first / second phase a single allocation left half open: the threshold speaks of the gate count only); every point is replayed on secq256k1, zorro, "
             "curve25519 and toy31723 (error kind, no panic), and proofs made with the same seed at different sufficient capacities must be "
             "byte-identical. batch_verify (one and two members, both orders) is run at every shared capacity from 0 to one above the threshold of its largest member: the capacity error exactly below the threshold, no panic. Recorded sessions on toy31723 whose capacities result from table histories are validated against Library.tla (capacity error iff table capacity < padded size). distinct = distinct (curve, n1, n2, capP, capV)" % mx,
        assumptions=["gates are created with allocate_multiplier (second-phase gates inside one callback); in the half-open shapes the last gate of a phase is a single allocation left open"],
        extra={"exhaustive": True})


def replay(chk, path):
    case = json.load(open(path))["payload"]
    if vlib.replay_generic(chk, case):
        chk.finish(rule="re-validation of one recorded trace / batch job")
    if "program" in case:
        rows = vlib.replay(chk, case["curve"], [case["program"]], "replay")
        vlib.report_replay(chk, rows, "threshold")
    chk.finish(rule="replay of one recorded case")
