//! Component-level drivers: Pedersen commitments (C13), the inner-product argument (C10),
//! generator tables (C12).
use crate::cv::*;
use crate::prog::Val;
use crate::run::{static_label, TxRec};
use ark_bulletproofs::verif_hooks::{inner_product, InnerProductProof};
use ark_bulletproofs::{BulletproofGens, PedersenGens};
use ark_ec::{AffineRepr, CurveGroup, VariableBaseMSM};
use ark_ff::{Field, One, PrimeField, UniformRand, Zero};
use ark_serialize::{CanonicalDeserialize, CanonicalSerialize, Compress, Validate};
use merlin::Transcript;
use rand::{Rng, SeedableRng};
use rand_chacha::ChaChaRng;
use serde_json::{json, Value};
use std::panic::{catch_unwind, AssertUnwindSafe};

/// mirror of InnerProductProof (fields are crate-private)
#[derive(Clone, Debug, CanonicalSerialize, CanonicalDeserialize)]
pub struct IppM<G: AffineRepr> {
    pub l_vec: Vec<G>,
    pub r_vec: Vec<G>,
    pub a: G::ScalarField,
    pub b: G::ScalarField,
}
impl<G: AffineRepr> IppM<G> {
    pub fn from_real(p: &InnerProductProof<G>) -> Self {
        Self::deserialize_with_mode(&ser_c(p)[..], Compress::Yes, Validate::No).unwrap()
    }
    pub fn to_real(&self) -> InnerProductProof<G> {
        InnerProductProof::<G>::deserialize_with_mode(&ser_c(self)[..], Compress::Yes, Validate::No).unwrap()
    }
}
fn ipp_json<C: Cv>(p: &IppM<C::G>) -> Value {
    json!({"L": p.l_vec.iter().map(enc_p::<C>).collect::<Vec<_>>(), "R": p.r_vec.iter().map(enc_p::<C>).collect::<Vec<_>>(),
           "a": enc_s::<C>(&p.a), "b": enc_s::<C>(&p.b)})
}
fn sv<C: Cv>(v: &[Fr<C>]) -> Value {
    Value::Array(v.iter().map(enc_s::<C>).collect())
}
fn pv<C: Cv>(v: &[C::G]) -> Value {
    Value::Array(v.iter().map(enc_p::<C>).collect())
}
fn chal_vals(ops: &[Value]) -> Value {
    Value::Array(ops.iter().filter(|o| o["o"] == "C").map(|o| o.get("val").cloned().unwrap_or(json!(1))).collect())
}
fn panic_msg(e: Box<dyn std::any::Any + Send>) -> String {
    if let Some(s) = e.downcast_ref::<&str>() {
        s.to_string()
    } else if let Some(s) = e.downcast_ref::<String>() {
        s.clone()
    } else {
        "panic".to_string()
    }
}

// ------------------------------------------------------------------------------------------------
// C13 Pedersen
// ------------------------------------------------------------------------------------------------

fn class_val<C: Cv>(class: &str, r: &mut ChaChaRng) -> Fr<C> {
    match class {
        "0" => Fr::<C>::zero(),
        "1" => Fr::<C>::one(),
        "-1" => -Fr::<C>::one(),
        "big" => Fr::<C>::from(u64::MAX) * Fr::<C>::from(4u64) + Fr::<C>::from(3u64) + Fr::<C>::from(u64::MAX), // > 2^64
        "order-2" => -Fr::<C>::from(2u64),
        _ => Fr::<C>::rand(r),
    }
}

/// independent evaluation of v*B + r*Bb (double-and-add over the canonical bit representation)
fn slow_mul<G: AffineRepr>(p: &G, k: &G::ScalarField) -> G::Group {
    let mut acc = G::Group::zero();
    let bits = k.into_bigint().to_bits_be();
    for b in bits {
        acc = acc + acc;
        if b {
            acc = acc + p.into_group();
        }
    }
    acc
}
use ark_ff::BigInteger;

/// toy: every (v, r) on several base pairs, as trace events; real: law instances from TLC-chosen class patterns
pub fn pedersen<C: Cv>(patterns: &[Value], seed: u64, out: &mut Vec<Value>) {
    let mut rng = ChaChaRng::seed_from_u64(seed);
    let d = PedersenGens::<C::G>::default();
    if C::TOY {
        let bases: Vec<(u64, u64)> = vec![(1, 0), (1, 3), (5, 2)];
        for (kb, kbb) in bases {
            // kbb = 0: the library's default pair
            let pc = if kbb == 0 {
                d
            } else {
                PedersenGens { B: gen_mul::<C>(&Fr::<C>::from(kb)), B_blinding: gen_mul::<C>(&Fr::<C>::from(kbb)) }
            };
            for v in 0..C::ORDER {
                for r in 0..C::ORDER {
                    if C::ORDER > 100 && (v * 7 + r * 13) % 1999 != 0 {
                        continue;
                    }
                    let (vf, rf) = (Fr::<C>::from(v), Fr::<C>::from(r));
                    let c = pc.commit(vf, rf);
                    out.push(json!({"ev":"pedersen","B":enc_p::<C>(&pc.B),"Bb":enc_p::<C>(&pc.B_blinding),"v":v,"r":r,"C":enc_p::<C>(&c)}));
                }
            }
        }
        // Prover::commit is the same function and appends the commitment under label "V"
        for _ in 0..20 {
            let (v, vb) = (Fr::<C>::rand(&mut rng), Fr::<C>::rand(&mut rng));
            merlin::trace::start();
            ark_bulletproofs::verif_hooks::start_recording_challenges();
            let mut t = Transcript::new(b"ped");
            let mut txr = TxRec::<C>::new(t.verif_tid());
            let _ = txr.drain();
            let mut prover = ark_bulletproofs::r1cs::Prover::<C::G, &mut Transcript>::new(&d, &mut t);
            let _ = txr.drain();
            let (pt, _var) = prover.commit(v, vb);
            let ops = txr.drain();
            merlin::trace::stop();
            out.push(json!({"ev":"prover_commit","B":enc_p::<C>(&d.B),"Bb":enc_p::<C>(&d.B_blinding),"v":enc_s::<C>(&v),"r":enc_s::<C>(&vb),
                            "C":enc_p::<C>(&pt),"tx":ops}));
        }
    } else {
        for (i, pat) in patterns.iter().enumerate() {
            let cls = |k: &str| pat[k].as_str().unwrap_or("rand").to_string();
            let (v1, r1, v2, r2, k) = (
                class_val::<C>(&cls("v1"), &mut rng),
                class_val::<C>(&cls("r1"), &mut rng),
                class_val::<C>(&cls("v2"), &mut rng),
                class_val::<C>(&cls("r2"), &mut rng),
                class_val::<C>(&cls("k"), &mut rng),
            );
            let pc = match pat["bases"].as_str().unwrap_or("default") {
                "default" => d,
                "swapped" => PedersenGens { B: d.B_blinding, B_blinding: d.B },
                _ => PedersenGens { B: C::G::rand(&mut rng), B_blinding: C::G::rand(&mut rng) },
            };
            let mut bad = vec![];
            let c1 = pc.commit(v1, r1);
            let c2 = pc.commit(v2, r2);
            // definition, evaluated independently
            let def = (slow_mul(&pc.B, &v1) + slow_mul(&pc.B_blinding, &r1)).into_affine();
            if c1 != def {
                bad.push("commit(v,r) != v*B + r*B_blinding".to_string());
            }
            let msm = <C::G as AffineRepr>::Group::msm(&[pc.B, pc.B_blinding], &[v1, r1]).unwrap().into_affine();
            if c1 != msm {
                bad.push("commit(v,r) != msm([B,Bb],[v,r])".to_string());
            }
            if (c1.into_group() + c2.into_group()).into_affine() != pc.commit(v1 + v2, r1 + r2) {
                bad.push("commit(v1,r1)+commit(v2,r2) != commit(v1+v2,r1+r2)".to_string());
            }
            if !pc.commit(Fr::<C>::zero(), Fr::<C>::zero()).is_zero() {
                bad.push("commit(0,0) is not the identity".to_string());
            }
            if (c1.into_group() * k).into_affine() != pc.commit(v1 * k, r1 * k) {
                bad.push("k*commit(v,r) != commit(k*v,k*r)".to_string());
            }
            // the prover's commit is the same function of its inputs, with the bases it was given
            let mut t = Transcript::new(b"ped");
            let mut prover = ark_bulletproofs::r1cs::Prover::<C::G, &mut Transcript>::new(&pc, &mut t);
            let (pt, _) = prover.commit(v1, r1);
            if pt != c1 {
                bad.push("Prover::commit differs from PedersenGens::commit".to_string());
            }
            out.push(json!({"ev":"pedersen_law","i":i,"pattern":pat,"curve":C::NAME,"bad":bad}));
        }
    }
}

// ------------------------------------------------------------------------------------------------
// C10 inner-product argument
// ------------------------------------------------------------------------------------------------

fn pattern_vec<C: Cv>(pat: &str, n: usize, r: &mut ChaChaRng) -> Vec<Fr<C>> {
    (0..n)
        .map(|i| match pat {
            "zeros" => Fr::<C>::zero(),
            "ones" => Fr::<C>::one(),
            "sparse" => {
                if i % 3 == 0 {
                    Fr::<C>::rand(r)
                } else {
                    Fr::<C>::zero()
                }
            }
            "unit" => {
                if i == n - 1 {
                    Fr::<C>::one()
                } else {
                    Fr::<C>::zero()
                }
            }
            _ => Fr::<C>::rand(r),
        })
        .collect()
}
fn nz_vec<C: Cv>(pat: &str, n: usize, r: &mut ChaChaRng) -> Vec<Fr<C>> {
    (0..n)
        .map(|_| match pat {
            "unit" => Fr::<C>::one(),
            _ => loop {
                let x = Fr::<C>::rand(r);
                if !x.is_zero() {
                    break x;
                }
            },
        })
        .collect()
}

struct IppRun<C: Cv> {
    n: usize,
    g: Vec<C::G>,
    h: Vec<C::G>,
    gf: Vec<Fr<C>>,
    hf: Vec<Fr<C>>,
    q: C::G,
    p: C::G,
    proof: IppM<C::G>,
}

fn ipp_verify_once<C: Cv>(run: &IppRun<C>, n_claim: usize, proof: &IppM<C::G>, p: &C::G, gf: &[Fr<C>], hf: &[Fr<C>], kind: &str, out: &mut Vec<Value>) -> String {
    merlin::trace::start();
    ark_bulletproofs::verif_hooks::start_recording_challenges();
    let mut t = Transcript::new(b"innerproducttest");
    let mut txr = TxRec::<C>::new(t.verif_tid());
    let _ = txr.drain();
    let real = proof.to_real();
    let res = catch_unwind(AssertUnwindSafe(|| real.verify(n_claim, &mut t, gf.iter(), hf.iter(), p, &run.q, &run.g, &run.h)));
    let ops = txr.drain();
    merlin::trace::stop();
    let res = match res {
        Ok(Ok(())) => "ok".to_string(),
        Ok(Err(_)) => "VerificationError".to_string(),
        Err(e) => format!("panic: {}", panic_msg(e)),
    };
    out.push(json!({"ev":"ipp_verify","kind":kind,"n":n_claim,"proof":ipp_json::<C>(proof),"P":enc_p::<C>(p),"Q":enc_p::<C>(&run.q),
                    "G":pv::<C>(&run.g),"H":pv::<C>(&run.h),"Gf":sv::<C>(gf),"Hf":sv::<C>(hf),"ch":chal_vals(&ops),"tx":ops,"res":res,
                    "curve":C::NAME}));
    res
}

/// the round challenges the code itself derives when it verifies `proof` against `p` (read through the guarded challenge recorder)
fn ipp_round_challenges<C: Cv>(run: &IppRun<C>, proof: &IppM<C::G>, p: &C::G) -> Option<Vec<Fr<C>>> {
    ark_bulletproofs::verif_hooks::start_recording_challenges();
    let mut t = Transcript::new(b"innerproducttest");
    let real = proof.to_real();
    let res = catch_unwind(AssertUnwindSafe(|| real.verify(run.n, &mut t, run.gf.iter(), run.hf.iter(), p, &run.q, &run.g, &run.h)));
    let ch = ark_bulletproofs::verif_hooks::take_challenges();
    if !matches!(res, Ok(Ok(()))) {
        return None;
    }
    let us: Vec<Fr<C>> = ch.iter().filter(|(l, _)| &l[..] == b"u").filter_map(|(_, b)| Fr::<C>::deserialize_compressed(&b[..]).ok()).collect();
    if us.len() == proof.l_vec.len() && us.iter().all(|u| !u.is_zero()) { Some(us) } else { None }
}

/// One create + a family of verifications (correct, and every rejection class). `inst` = {k, a, b, gf, hf} pattern names.
pub fn ipp_instance<C: Cv>(inst: &Value, seed: u64, out: &mut Vec<Value>) -> Vec<String> {
    let mut rng = ChaChaRng::seed_from_u64(seed);
    let k = inst["k"].as_u64().unwrap_or(0) as usize;
    let n = 1usize << k;
    let bp = BulletproofGens::<C::G>::new(n, 1);
    let g: Vec<C::G> = bp.G(n, 1).cloned().collect();
    let h: Vec<C::G> = bp.H(n, 1).cloned().collect();
    let pat = |f: &str| inst[f].as_str().unwrap_or("dense").to_string();
    let a = pattern_vec::<C>(&pat("a"), n, &mut rng);
    let b = pattern_vec::<C>(&pat("b"), n, &mut rng);
    let gf = nz_vec::<C>(&pat("gf"), n, &mut rng);
    let hf = nz_vec::<C>(&pat("hf"), n, &mut rng);
    let q = gen_mul::<C>(&nz_vec::<C>("dense", 1, &mut rng)[0]);
    let mut bad = vec![];
    // P = <a, G'> + <b, H'> + <a,b> Q
    let c = inner_product(&a, &b);
    let mut bases: Vec<C::G> = g.clone();
    bases.extend(h.iter().cloned());
    bases.push(q);
    let mut scal: Vec<Fr<C>> = a.iter().zip(gf.iter()).map(|(x, y)| *x * y).collect();
    scal.extend(b.iter().zip(hf.iter()).map(|(x, y)| *x * y));
    scal.push(c);
    let p = <C::G as AffineRepr>::Group::msm(&bases, &scal).unwrap().into_affine();

    merlin::trace::start();
    ark_bulletproofs::verif_hooks::start_recording_challenges();
    let mut t = Transcript::new(b"innerproducttest");
    let mut txr = TxRec::<C>::new(t.verif_tid());
    let _ = txr.drain();
    let created = catch_unwind(AssertUnwindSafe(|| InnerProductProof::<C::G>::create(&mut t, &q, &gf, &hf, g.clone(), h.clone(), a.clone(), b.clone())));
    let ops = txr.drain();
    merlin::trace::stop();
    let proof = match created {
        Ok(p) => IppM::from_real(&p),
        Err(e) => {
            out.push(json!({"ev":"ipp_create","n":n,"a":sv::<C>(&a),"b":sv::<C>(&b),"G":pv::<C>(&g),"H":pv::<C>(&h),"Gf":sv::<C>(&gf),
                            "Hf":sv::<C>(&hf),"Q":enc_p::<C>(&q),"ch":chal_vals(&ops),"tx":ops,"res":format!("panic: {}", panic_msg(e)),"curve":C::NAME}));
            return bad;
        }
    };
    out.push(json!({"ev":"ipp_create","n":n,"a":sv::<C>(&a),"b":sv::<C>(&b),"G":pv::<C>(&g),"H":pv::<C>(&h),"Gf":sv::<C>(&gf),"Hf":sv::<C>(&hf),
                    "Q":enc_p::<C>(&q),"P":enc_p::<C>(&p),"ch":chal_vals(&ops),"tx":ops,"res":"ok","proof":ipp_json::<C>(&proof),"curve":C::NAME}));
    if proof.l_vec.len() != k || proof.r_vec.len() != k {
        bad.push(format!("created proof has {}/{} rounds, expected {}", proof.l_vec.len(), proof.r_vec.len(), k));
    }
    let run = IppRun::<C> { n, g, h, gf: gf.clone(), hf: hf.clone(), q, p, proof: proof.clone() };
    let degenerate = proof.l_vec.iter().chain(proof.r_vec.iter()).any(|x| x.is_zero());
    let expect = |kind: &str, res: String, want_ok: bool, bad: &mut Vec<String>| {
        if res.starts_with("panic") {
            bad.push(format!("{}: {}", kind, res));
        } else if !C::TOY {
            // ideal verdicts on the 256-bit curves
            if want_ok && !degenerate && res != "ok" {
                bad.push(format!("{}: correct opening rejected", kind));
            }
            if !want_ok && res == "ok" {
                bad.push(format!("{}: accepted", kind));
            }
        }
    };
    let r = ipp_verify_once(&run, n, &proof, &p, &gf, &hf, "correct", out);
    expect("correct", r, true, &mut bad);
    // wrong P (a wrong claimed product: P + Q)
    let p_wrong = (p.into_group() + q.into_group()).into_affine();
    let r = ipp_verify_once(&run, n, &proof, &p_wrong, &gf, &hf, "wrong-product", out);
    expect("wrong-product", r, false, &mut bad);
    // altered final scalars
    let mut pf = proof.clone();
    pf.a += Fr::<C>::one();
    let r = ipp_verify_once(&run, n, &pf, &p, &gf, &hf, "a+1", out);
    expect("a+1", r, false, &mut bad);
    let mut pf = proof.clone();
    pf.b -= Fr::<C>::one();
    let r = ipp_verify_once(&run, n, &pf, &p, &gf, &hf, "b-1", out);
    expect("b-1", r, false, &mut bad);
    if k > 0 {
        // altered round, swapped L/R of a round, reordered rounds
        let j = rng.gen_range(0..k);
        let mut pf = proof.clone();
        pf.l_vec[j] = (pf.l_vec[j].into_group() + C::G::generator().into_group()).into_affine();
        let r = ipp_verify_once(&run, n, &pf, &p, &gf, &hf, "L+g", out);
        expect("L+g", r, false, &mut bad);
        let mut pf = proof.clone();
        std::mem::swap(&mut pf.l_vec[j], &mut pf.r_vec[j]);
        let r = ipp_verify_once(&run, n, &pf, &p, &gf, &hf, "swapLR", out);
        expect("swapLR", r, false, &mut bad);
        if k > 1 {
            let mut pf = proof.clone();
            pf.l_vec.swap(0, 1);
            pf.r_vec.swap(0, 1);
            let r = ipp_verify_once(&run, n, &pf, &p, &gf, &hf, "reorder", out);
            expect("reorder", r, false, &mut bad);
        }
        // altered factor
        let mut gf2 = gf.clone();
        gf2[n - 1] += Fr::<C>::one();
        if !a[n - 1].is_zero() {
            let r = ipp_verify_once(&run, n, &proof, &p, &gf2, &hf, "factor", out);
            expect("factor", r, false, &mut bad);
        }
        // an identity round point is rejected by design
        let mut pf = proof.clone();
        pf.r_vec[j] = C::G::zero();
        let r = ipp_verify_once(&run, n, &pf, &p, &gf, &hf, "identity-round", out);
        expect("identity-round", r, false, &mut bad);
    }
    // openings adapted to the round challenges of the accepted run ("frozen challenges"): each keeps the verification equation intact
    // under the OLD challenges - a cross term moved into the statement point, or between two round points - and is another opening of
    // another P (or another proof of the same P); since every round point is absorbed before its challenge, the challenges move and the
    // opening is rejected
    if k > 0 && !degenerate {
        if let Some(us) = ipp_round_challenges::<C>(&run, &proof, &p) {
            let mulp = |pt: &C::G, s: Fr<C>| (pt.into_group() * s).into_affine();
            let addp = |x: &C::G, y: &C::G| (x.into_group() + y.into_group()).into_affine();
            let delta = nz_vec::<C>("dense", 1, &mut rng)[0];
            let dq = mulp(&q, delta);
            let p_shift = (p.into_group() - dq.into_group()).into_affine();
            let j = rng.gen_range(0..k);
            let uj2 = us[j] * us[j];
            let uj2i = uj2.inverse().unwrap();
            let mut pf = proof.clone();
            pf.r_vec[j] = addp(&pf.r_vec[j], &mulp(&dq, uj2));
            let r = ipp_verify_once(&run, n, &pf, &p_shift, &gf, &hf, "frozen-R-P", out);
            expect("frozen-R-P", r, false, &mut bad);
            let mut pf = proof.clone();
            pf.l_vec[j] = addp(&pf.l_vec[j], &mulp(&dq, uj2i));
            let r = ipp_verify_once(&run, n, &pf, &p_shift, &gf, &hf, "frozen-L-P", out);
            expect("frozen-L-P", r, false, &mut bad);
            let d = mulp(&run.g[0], delta);
            let mut pf = proof.clone();
            pf.l_vec[j] = addp(&pf.l_vec[j], &d);
            pf.r_vec[j] = (pf.r_vec[j].into_group() - mulp(&d, uj2 * uj2).into_group()).into_affine();
            let r = ipp_verify_once(&run, n, &pf, &p, &gf, &hf, "frozen-L-R", out);
            expect("frozen-L-R", r, false, &mut bad);
            if k > 1 {
                let m = (j + 1 + rng.gen_range(0..k - 1)) % k;
                let um2 = us[m] * us[m];
                let mut pf = proof.clone();
                pf.r_vec[j] = addp(&pf.r_vec[j], &d);
                pf.r_vec[m] = (pf.r_vec[m].into_group() - mulp(&d, um2 * uj2i).into_group()).into_affine();
                let r = ipp_verify_once(&run, n, &pf, &p, &gf, &hf, "frozen-R-R", out);
                expect("frozen-R-R", r, false, &mut bad);
                let mut pf = proof.clone();
                pf.l_vec[j] = addp(&pf.l_vec[j], &d);
                pf.l_vec[m] = (pf.l_vec[m].into_group() - mulp(&d, uj2 * um2.inverse().unwrap()).into_group()).into_affine();
                let r = ipp_verify_once(&run, n, &pf, &p, &gf, &hf, "frozen-L-L", out);
                expect("frozen-L-L", r, false, &mut bad);
            }
        }
    }
    // a claimed length that does not match the rounds (generators sized for the claim are required by the API; use n/2 and 2n views)
    if k > 0 {
        let half = IppRun::<C> { n: n / 2, g: run.g[..n / 2].to_vec(), h: run.h[..n / 2].to_vec(), gf: gf[..n / 2].to_vec(), hf: hf[..n / 2].to_vec(), q, p, proof: proof.clone() };
        let r = ipp_verify_once(&half, n / 2, &proof, &p, &gf[..n / 2], &hf[..n / 2], "claimed-n/2", out);
        expect("claimed-n/2", r, false, &mut bad);
    }
    {
        let bp2 = BulletproofGens::<C::G>::new(2 * n, 1);
        let g2: Vec<C::G> = bp2.G(2 * n, 1).cloned().collect();
        let h2: Vec<C::G> = bp2.H(2 * n, 1).cloned().collect();
        let mut gf2 = gf.clone();
        gf2.extend(gf.clone());
        let mut hf2 = hf.clone();
        hf2.extend(hf.clone());
        let dbl = IppRun::<C> { n: 2 * n, g: g2, h: h2, gf: gf2.clone(), hf: hf2.clone(), q, p, proof: proof.clone() };
        let r = ipp_verify_once(&dbl, 2 * n, &proof, &p, &gf2, &hf2, "claimed-2n", out);
        expect("claimed-2n", r, false, &mut bad);
    }
    // claimed lengths that are not powers of two: n - 1 (k >= 2), n + 1, and 0 with the proof's own rounds
    {
        let bp2 = BulletproofGens::<C::G>::new(2 * n, 1);
        let g2: Vec<C::G> = bp2.G(2 * n, 1).cloned().collect();
        let h2: Vec<C::G> = bp2.H(2 * n, 1).cloned().collect();
        let mut claims = vec![n + 1, 0];
        if k >= 2 {
            claims.push(n - 1);
        }
        if n + 1 == 2 {
            claims.retain(|c| *c != 2); // n = 1: n + 1 is a power of two, covered by claimed-2n
            claims.push(3);
        }
        for c in claims {
            let gfc: Vec<Fr<C>> = (0..c).map(|i| gf[i % n]).collect();
            let hfc: Vec<Fr<C>> = (0..c).map(|i| hf[i % n]).collect();
            let odd = IppRun::<C> { n: c, g: g2[..c.min(2 * n)].to_vec(), h: h2[..c.min(2 * n)].to_vec(), gf: gfc.clone(), hf: hfc.clone(), q, p, proof: proof.clone() };
            if odd.g.len() != c {
                continue;
            }
            let kind = format!("claimed-{}", if c == 0 { "0".to_string() } else if c == n + 1 { "n+1".to_string() } else if c + 1 == n { "n-1".to_string() } else { c.to_string() });
            let r = ipp_verify_once(&odd, c, &proof, &p, &gfc, &hfc, &kind, out);
            expect(&kind, r, false, &mut bad);
        }
    }
    let _ = run.n;
    let _ = &run.proof;
    let _ = (&run.gf, &run.hf, &run.p);
    bad
}

// ------------------------------------------------------------------------------------------------
// C12 generators
// ------------------------------------------------------------------------------------------------

fn digest_points<G: AffineRepr>(pts: &[G]) -> String {
    use sha3::{Digest, Sha3_256};
    let mut h = Sha3_256::new();
    for p in pts {
        h.update(ser_c(p));
    }
    hex(&h.finalize())
}

/// Execute one history of capacity operations; compare every table entry and every view with the
/// reference table (a freshly built maximal table), i.e. with Chain(kind, party, i).
pub fn gens_history<C: Cv>(hist: &Value) -> Value {
    let mut bad: Vec<String> = vec![];
    let parties = hist["parties"].as_u64().unwrap() as usize;
    let ops = hist["ops"].as_array().unwrap();
    let maxcap = ops.iter().map(|o| o["cap"].as_u64().unwrap_or(0) as usize).max().unwrap_or(0).max(1);
    let reference = BulletproofGens::<C::G>::new(maxcap, parties.max(1));
    let ref_g = |j: usize, i: usize| -> C::G { *reference.G(maxcap, parties.max(1)).nth(j * maxcap + i).unwrap() };
    let ref_h = |j: usize, i: usize| -> C::G { *reference.H(maxcap, parties.max(1)).nth(j * maxcap + i).unwrap() };
    let r = catch_unwind(AssertUnwindSafe(|| {
        let mut bad: Vec<String> = vec![];
        let mut gens: Option<BulletproofGens<C::G>> = None;
        for (step, o) in ops.iter().enumerate() {
            let kind = o["op"].as_str().unwrap();
            match kind {
                "new" => gens = Some(BulletproofGens::<C::G>::new(o["cap"].as_u64().unwrap() as usize, parties)),
                "inc" => gens.as_mut().unwrap().increase_capacity(o["cap"].as_u64().unwrap() as usize),
                "roundtrip" => {
                    let g = gens.take().unwrap();
                    let bytes = ser_c(&g);
                    gens = Some(BulletproofGens::<C::G>::deserialize_compressed(&bytes[..]).expect("gens round trip"));
                }
                "clone" => {
                    let g = gens.take().unwrap();
                    gens = Some(g.clone());
                }
                _ => panic!("bad gens op"),
            }
            let g = gens.as_ref().unwrap();
            let cap = o["expect_cap"].as_u64().unwrap() as usize;
            if g.gens_capacity != cap {
                bad.push(format!("step {}: capacity {} expected {}", step, g.gens_capacity, cap));
            }
            if g.party_capacity != parties {
                bad.push(format!("step {}: party capacity {} expected {}", step, g.party_capacity, parties));
            }
            // every entry of the table is Chain(kind, party, i): compare with the reference table
            if cap > 0 && parties > 0 {
                let gs: Vec<C::G> = g.G(cap, parties).cloned().collect();
                let hs: Vec<C::G> = g.H(cap, parties).cloned().collect();
                if gs.len() != cap * parties || hs.len() != cap * parties {
                    bad.push(format!("step {}: full view has {} / {} entries, expected {}", step, gs.len(), hs.len(), cap * parties));
                } else {
                    for j in 0..parties {
                        for i in 0..cap {
                            if gs[j * cap + i] != ref_g(j, i) {
                                bad.push(format!("step {}: G[{}][{}] is not Chain(G,{},{})", step, j, i, j, i));
                            }
                            if hs[j * cap + i] != ref_h(j, i) {
                                bad.push(format!("step {}: H[{}][{}] is not Chain(H,{},{})", step, j, i, j, i));
                            }
                        }
                    }
                }
            }
        }
        // views
        let g = gens.as_ref().unwrap();
        for v in hist["views"].as_array().unwrap() {
            let (n, m) = (v["n"].as_u64().unwrap() as usize, v["m"].as_u64().unwrap() as usize);
            let exp: Vec<(usize, usize)> = v["expect"].as_array().unwrap().iter().map(|e| (e[0].as_u64().unwrap() as usize, e[1].as_u64().unwrap() as usize)).collect();
            let got = catch_unwind(AssertUnwindSafe(|| {
                let gs: Vec<C::G> = g.G(n, m).cloned().collect();
                let hs: Vec<C::G> = g.H(n, m).cloned().collect();
                (gs, hs)
            }));
            let (gs, hs) = match got {
                Ok(x) => x,
                Err(e) => {
                    bad.push(format!("view({},{}) panics: {}", n, m, panic_msg(e)));
                    continue;
                }
            };
            if gs.len() != exp.len() || hs.len() != exp.len() {
                bad.push(format!("view({},{}) yields {} G / {} H, expected {}", n, m, gs.len(), hs.len(), exp.len()));
            } else {
                for (idx, (j, i)) in exp.iter().enumerate() {
                    if gs[idx] != ref_g(*j, *i) || hs[idx] != ref_h(*j, *i) {
                        bad.push(format!("view({},{}) entry {} is not party {} generator {}", n, m, idx, j, i));
                    }
                }
            }
        }
        bad
    }));
    match r {
        Ok(b) => bad.extend(b),
        Err(e) => bad.push(format!("panic: {}", panic_msg(e))),
    }
    bad.truncate(8);
    json!({"id": hist["id"], "curve": C::NAME, "bad": bad})
}

/// digests and group facts of the generator tables (pinned in fixtures; model assumptions on Chain)
pub fn gens_facts<C: Cv>(cap: usize, parties: usize) -> Value {
    let bp = BulletproofGens::<C::G>::new(cap, parties);
    let pc = PedersenGens::<C::G>::default();
    let gs: Vec<C::G> = bp.G(cap, parties).cloned().collect();
    let hs: Vec<C::G> = bp.H(cap, parties).cloned().collect();
    let mut all: Vec<C::G> = gs.clone();
    all.extend(hs.iter().cloned());
    all.push(pc.B);
    all.push(pc.B_blinding);
    let mut bad = vec![];
    let mut seen = std::collections::HashSet::new();
    for (i, p) in all.iter().enumerate() {
        if p.is_zero() {
            bad.push(format!("element {} is the identity", i));
        }
        if !C::TOY {
            if !seen.insert(ser_c(p)) {
                bad.push(format!("element {} repeats an earlier one", i));
            }
            if ark_serialize::Valid::check(p).is_err() {
                bad.push(format!("element {} is not in the prime-order subgroup", i));
            }
            // explicit: order * p = identity
            let m = <Fr<C> as PrimeField>::MODULUS;
            if !p.mul_bigint(m).is_zero() {
                bad.push(format!("element {} does not have prime order", i));
            }
        }
    }
    bad.truncate(5);
    json!({"curve": C::NAME, "cap": cap, "parties": parties, "digest_G": digest_points(&gs), "digest_H": digest_points(&hs),
           "B": hex(&ser_c(&pc.B)), "B_blinding": hex(&ser_c(&pc.B_blinding)), "bad": bad})
}

pub fn val_of(v: &Value) -> Val {
    serde_json::from_value(v.clone()).unwrap()
}
#[allow(dead_code)]
pub fn unused() {
    let _ = static_label("x");
    let _ = <u8 as Zero>::zero();
    fn _f<F: Field>(_: F) {}
}
