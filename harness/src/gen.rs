//! Seeded random program generator (the harness' own driver, next to the TLC-generated behaviours).
use crate::prog::*;
use rand::{Rng, SeedableRng};
use rand_chacha::ChaChaRng;

struct B {
    nv: usize,
    pending: Option<usize>,
    /// gates whose output wire is meaningful (fully assigned)
    ncommit: usize,
    nchal: usize,
    nfix: usize,
}

fn val(r: &mut ChaChaRng, m: i64) -> Val {
    if m <= 8 {
        // "small" programs: values and coefficients from -2 .. 3, so that free constraints hold (or fail) by the values themselves
        return Val::I(r.gen_range(-2..=3));
    }
    // bias towards the special values 0, 1, -1
    match r.gen_range(0..10) {
        0 => Val::I(0),
        1 => Val::I(1),
        2 => Val::I(m - 1),
        _ => Val::I(r.gen_range(0..m)),
    }
}
fn nzval(r: &mut ChaChaRng, m: i64) -> Val {
    if m <= 8 {
        return Val::I([-2, -1, 1, 2, 3][r.gen_range(0..5)]);
    }
    Val::I(r.gen_range(1..m))
}

fn rand_var(r: &mut ChaChaRng, b: &B) -> Option<(String, usize)> {
    let mut kinds = vec![];
    if b.nv > 0 {
        kinds.push("L");
        kinds.push("R");
        kinds.push("O");
    }
    if b.ncommit > 0 {
        kinds.push("V");
    }
    kinds.push("1");
    let k = kinds[r.gen_range(0..kinds.len())];
    let i = match k {
        "V" => r.gen_range(0..b.ncommit),
        "1" => 0,
        _ => r.gen_range(0..b.nv),
    };
    Some((k.to_string(), i))
}

fn rand_lc(r: &mut ChaChaRng, b: &B, m: i64, in_cb: bool) -> Vec<Term> {
    let n = r.gen_range(0..4);
    let mut out = vec![];
    for _ in 0..n {
        if let Some((k, i)) = rand_var(r, b) {
            let c = if in_cb && b.nchal > 0 && r.gen_bool(0.4) {
                Coef::Ch { k0: val(r, m), ch: r.gen_range(0..b.nchal), k1: val(r, m) }
            } else {
                Coef::V(val(r, m))
            };
            out.push((k, i, c));
        }
    }
    out
}

fn rand_ops(r: &mut ChaChaRng, b: &mut B, m: i64, nops: usize, in_cb: bool, ncbs: &mut Vec<Vec<Op>>, allow_bad: bool) -> Vec<Op> {
    let mut ops = vec![];
    for _ in 0..nops {
        let choice = r.gen_range(0..100);
        let op = match choice {
            0..=11 if !in_cb => {
                b.ncommit += 1;
                Op::Commit { v: val(r, m), vb: val(r, m) }
            }
            12..=27 => {
                match b.pending {
                    None => {
                        b.pending = Some(b.nv);
                        b.nv += 1;
                    }
                    Some(_) => b.pending = None,
                }
                Op::Alloc { a: Some(val(r, m)) }
            }
            28..=37 => {
                b.nv += 1;
                Op::Allocmul { l: Some(val(r, m)), r: Some(val(r, m)) }
            }
            38..=55 => {
                let l = rand_lc(r, b, m, in_cb);
                let rr = rand_lc(r, b, m, in_cb);
                b.nv += 1;
                Op::Mul { l, r: rr }
            }
            56..=80 => {
                let lc = rand_lc(r, b, m, in_cb);
                if allow_bad && r.gen_bool(if m <= 8 { 0.7 } else { 0.15 }) {
                    // free constraint: satisfied only by luck
                    Op::Con { lc, fix: None, delta: None, split: None }
                } else {
                    b.nfix += 1;
                    Op::Con { lc, fix: Some(b.nfix), delta: None, split: None }
                }
            }
            81..=86 => Op::Append { label: ["app", "ctx", "x"][r.gen_range(0..3)].to_string(), data: (0..r.gen_range(0..5)).map(|_| r.gen()).collect() },
            87..=92 if !in_cb && ncbs.len() < 3 => {
                ncbs.push(vec![]);
                Op::Defer { cb: ncbs.len() - 1 }
            }
            87..=92 if in_cb => {
                b.nchal += 1;
                Op::Chal { label: ["c", "shuffle challenge", "z"][r.gen_range(0..3)].to_string() }
            }
            93 => Op::Len,
            // a constraint without any term (e.g. the sum over an empty set of wires): trivially true, but it occupies a position
            94 => Op::Con { lc: vec![], fix: None, delta: None, split: None },
            95 if in_cb && allow_bad => {
                if r.gen_bool(0.5) { Op::Fail } else { Op::Alloc { a: None } }
            }
            95 => Op::Len,
            _ => {
                let lc = rand_lc(r, b, m, in_cb);
                b.nfix += 1;
                Op::Con { lc, fix: Some(b.nfix), delta: None, split: None }
            }
        };
        ops.push(op);
    }
    ops
}

fn pad2(n: usize) -> usize {
    n.next_power_of_two()
}

pub fn gen_program(r: &mut ChaChaRng, m: i64, kind: &str, id: String) -> Program {
    let mut b = B { nv: 0, pending: None, ncommit: 0, nchal: 0, nfix: 0 };
    let mut cbs: Vec<Vec<Op>> = vec![];
    let allow_bad = kind == "free" || kind == "small";
    // "small": free constraints over small values and coefficients - whether the statement holds is decided by the assignment alone
    // (no by-construction constants); the specification's Satisfied() is the oracle for the verdict in both directions
    let m = if kind == "small" { 4 } else { m };
    // (the combiner attack only bites where no later challenge depends on the two scalars: at most one gate)
    let nops = if kind == "rcraft" { r.gen_range(0..4) } else if kind == "small" { r.gen_range(1..7) } else { r.gen_range(0..9) };
    let mut ops = rand_ops(r, &mut b, m, nops, false, &mut cbs, allow_bad);
    let n1 = b.nv;
    // phase switch: pending cleared
    b.pending = None;
    let ncb = cbs.len();
    for k in 0..ncb {
        let mut dummy = vec![];
        let mut body = vec![];
        if r.gen_bool(0.8) {
            b.nchal += 1;
            body.push(Op::Chal { label: "c".to_string() });
        }
        let nb = r.gen_range(0..5);
        body.extend(rand_ops(r, &mut b, m, nb, true, &mut dummy, allow_bad));
        cbs[k] = body;
    }
    let n = b.nv;
    // violated variants
    let mut expect_v = String::new();
    if kind == "badwit" {
        // choose a constraint or a gate to violate
        let mut cons_pos: Vec<(usize, usize)> = vec![]; // (list: 0 = ops, k+1 = cb k ; index)
        for (i, o) in ops.iter().enumerate() {
            if matches!(o, Op::Con { fix: Some(_), .. }) {
                cons_pos.push((0, i));
            }
        }
        for (k, cb) in cbs.iter().enumerate() {
            for (i, o) in cb.iter().enumerate() {
                if matches!(o, Op::Con { fix: Some(_), .. }) {
                    cons_pos.push((k + 1, i));
                }
            }
        }
        let gate_ok = n > 0;
        let pick_gate = gate_ok && (cons_pos.is_empty() || r.gen_bool(0.4));
        if pick_gate {
            let i = r.gen_range(0..n);
            let bg = Op::Breakgate { i, delta: nzval(r, m) };
            if i < n1 {
                ops.push(bg);
            } else if !cbs.is_empty() {
                let last = cbs.len() - 1;
                cbs[last].push(bg);
            }
            expect_v = "reject".into();
        } else if !cons_pos.is_empty() {
            let (l, i) = cons_pos[r.gen_range(0..cons_pos.len())];
            let d = Some(nzval(r, m));
            let tgt = if l == 0 { &mut ops[i] } else { &mut cbs[l - 1][i] };
            // the offset is sometimes spelt as a constant term of its own, before or after the satisfying constant
            let sp = match r.gen_range(0..3) { 0 => Some("first".to_string()), 1 => Some("last".to_string()), _ => None };
            if let Op::Con { delta, split, .. } = tgt {
                *delta = d;
                *split = sp;
            }
            expect_v = "reject".into();
        }
    } else if kind == "honest" || kind == "tamper" || kind == "tamper2" || kind == "surplus" || kind == "rcraft" {
        expect_v = "ok".into();
    }
    let cap_need = pad2(n);
    let capsel = r.gen_range(0..10);
    let cap_p = match capsel {
        0 => cap_need + 1,
        1 => 2 * cap_need,
        _ => cap_need,
    };
    let cap_v = match r.gen_range(0..10) {
        0 => cap_need + 3,
        1 => 2 * cap_need,
        _ => cap_need,
    };
    let mut tamper = vec![];
    if kind == "tamper2" {
        // the second-phase commitments: identity placeholders in one-phase circuits, where nothing but the verifier's
        // own weights and transcript appends accounts for them
        let f = ["AI2", "AO2", "S2"][r.gen_range(0..3)];
        tamper.push(match r.gen_range(0..3) {
            0 => Edit::Setpt { f: f.into(), v: nzval(r, m) },
            1 => Edit::Addpt { f: f.into(), v: nzval(r, m) },
            _ => Edit::Swap { f: f.into(), g: ["AI1", "T1", "S1"][r.gen_range(0..3)].into() },
        });
        expect_v = "reject".into();
    }
    if kind == "surplus" {
        // more (or fewer) inner-product rounds than the padded size calls for, with arbitrary points: the shape guard must reject,
        // whatever the algebra of the extra terms happens to give (visible on 7- and 79-element groups)
        let rounds = r.gen_range(1..3);
        for _ in 0..rounds {
            tamper.push(Edit::Push { f: "L".into(), v: nzval(r, m) });
            tamper.push(Edit::Push { f: "R".into(), v: nzval(r, m) });
        }
        if r.gen_bool(0.3) {
            tamper.push(Edit::Add { f: "a".into(), v: nzval(r, m) });
        }
        expect_v = "reject".into();
    }
    if kind == "rcraft" {
        // the combiner attack on the two blinding scalars (see Edit::Rshift); small circuits, where no later challenge depends on them
        tamper.push(Edit::Rshift { d: nzval(r, m) });
        expect_v = "reject".into();
    }
    if kind == "tamper" {
        let k = pad2(n).trailing_zeros() as usize;
        let scal = ["tx", "txb", "eb", "a", "b"];
        let pts = ["AI1", "AO1", "S1", "AI2", "AO2", "S2", "T1", "T3", "T4", "T5", "T6"];
        let e = match r.gen_range(0..10) {
            0..=3 => Edit::Add { f: scal[r.gen_range(0..5)].into(), v: nzval(r, m) },
            4..=6 => Edit::Addpt { f: pts[r.gen_range(0..11)].into(), v: nzval(r, m) },
            7 if k > 0 => Edit::Addpt { f: format!("{}{}", if r.gen_bool(0.5) { "L" } else { "R" }, r.gen_range(1..=k)), v: nzval(r, m) },
            8 => Edit::Neg { f: pts[r.gen_range(0..11)].into() },
            _ => Edit::Swap { f: "a".into(), g: "b".into() },
        };
        tamper.push(e);
        expect_v = "reject".into();
    }
    let side = Side {
        label: "verif".into(),
        pre: if r.gen_bool(0.3) { vec![("app-ctx".to_string(), vec![1, 2, 3])] } else { vec![] },
        ops,
        cbs,
        cap: cap_p,
        pc: PcSpec::default(),
        gh: vec![],
    };
    let v = if cap_v != cap_p {
        let mut s = side.clone();
        s.cap = cap_v;
        Some(s)
    } else {
        None
    };
    Program { id, p: side, v, seed: r.gen(), tamper, expect_p: String::new(), expect_v, wide: false, rets: None, vskip: false, bytes: false, btamper: vec![], roles: false }
}

/// a random life of a generator table: new, then increases / round trips / clones / views; `need` = the padded gate count the side needs
fn gen_history(r: &mut ChaChaRng, need: usize) -> Vec<GOp> {
    let parties = r.gen_range(1..=3usize);
    let mut cap = r.gen_range(0..=need + 2);
    let mut h = vec![GOp::New { cap, parties }];
    for _ in 0..r.gen_range(0..4) {
        match r.gen_range(0..6) {
            0 | 1 => {
                let c = r.gen_range(0..=2 * need + 1);
                if c > cap {
                    cap = c;
                }
                h.push(GOp::Inc { cap: c });
            }
            2 => h.push(GOp::Ser),
            3 => h.push(GOp::Clone),
            _ => h.push(GOp::View { kind: if r.gen_bool(0.5) { "G".into() } else { "H".into() }, n: r.gen_range(0..=cap), m: r.gen_range(0..=parties) }),
        }
    }
    if cap < need && r.gen_bool(0.85) {
        h.push(GOp::Inc { cap: need + r.gen_range(0..2) });
    }
    if r.gen_bool(0.3) {
        h.push(if r.gen_bool(0.5) { GOp::Ser } else { GOp::Clone });
    }
    h
}

/// a longer life of a generator table for table-only traces (any curve): capacities up to maxcap, up to maxparties parties
pub fn gen_life(r: &mut ChaChaRng, maxcap: usize, maxparties: usize, maxops: usize) -> Vec<GOp> {
    let parties = r.gen_range(0..=maxparties);
    let mut cap = r.gen_range(0..=maxcap / 2);
    let mut h = vec![GOp::New { cap, parties }];
    for _ in 0..r.gen_range(1..=maxops) {
        match r.gen_range(0..7) {
            0 | 1 | 2 => {
                let c = r.gen_range(0..=maxcap);
                if c > cap {
                    cap = c;
                }
                h.push(GOp::Inc { cap: c });
            }
            3 => h.push(GOp::Ser),
            4 => h.push(GOp::Clone),
            _ => h.push(GOp::View { kind: if r.gen_bool(0.5) { "G".into() } else { "H".into() }, n: r.gen_range(0..=cap), m: r.gen_range(0..=parties) }),
        }
    }
    h
}

/// a whole session: generator tables with a history on both sides, the proof as bytes, tampering on objects or bytes
pub fn gen_session(r: &mut ChaChaRng, m: i64, id: String) -> Program {
    let base = ["honest", "honest", "honest", "tamper", "badwit", "surplus"][r.gen_range(0..6)];
    let mut p = gen_program(r, m, base, id);
    let need = pad2(p.p.cap.min(p.vside().cap).max(1)).max(1); // the generator chose caps >= the padded size
    let need = {
        // recover the padded size: the smallest of the two chosen capacities is need, need + 1, need + 3 or 2 * need
        let c = p.p.cap.min(p.vside().cap);
        let mut n = 1;
        while n * 2 <= c { n *= 2; }
        let _ = need;
        n
    };
    p.p.gh = gen_history(r, need);
    let mut v = p.vside().clone();
    v.gh = gen_history(r, need);
    p.v = Some(v);
    p.bytes = true;
    p.expect_v = String::new();
    if base == "honest" && r.gen_bool(0.5) {
        let e = match r.gen_range(0..6) {
            0 => BEdit::Truncate { len: r.gen_range(0..600) },
            1 => BEdit::Bitflip { bit: r.gen_range(0..4000) },
            2 => BEdit::Ffs { tok: r.gen_range(0..24) },
            3 => BEdit::Count { which: r.gen_range(0..2), val: [0u64, 1, 2, 3, 5, 1 << 20, u64::MAX][r.gen_range(0..7)] },
            4 => BEdit::Trail { n: r.gen_range(1..40) },
            _ => BEdit::Truncate { len: r.gen_range(0..40) },
        };
        p.btamper.push(e);
    }
    p
}

pub fn gen_programs(seed: u64, n: usize, m: i64, kind: &str) -> Vec<Program> {
    if kind == "session" {
        let mut r = ChaChaRng::seed_from_u64(seed);
        return (0..n).map(|i| gen_session(&mut r, m, format!("s{}-{}", seed, i))).collect();
    }
    let mut r = ChaChaRng::seed_from_u64(seed);
    (0..n)
        .map(|i| {
            let k = if kind == "mixed" { ["honest", "badwit", "tamper", "free"][r.gen_range(0..4)] } else { kind };
            gen_program(&mut r, m, k, format!("g{}-{}-{}", seed, i, k))
        })
        .collect()
}
