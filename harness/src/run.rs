//! Drives the real Prover / Verifier API with a Program and records every observable effect.
use crate::cv::*;
use crate::prog::*;
use ark_bulletproofs::r1cs::*;
use ark_bulletproofs::{BulletproofGens, PedersenGens};
use ark_ec::{AffineRepr, CurveGroup};
use ark_ff::{Field, One, UniformRand, Zero};
use ark_serialize::{CanonicalDeserialize, CanonicalSerialize, Compress, Validate};
use merlin::trace::Event as ME;
use merlin::Transcript;
use rand_chacha::ChaChaRng;
use rand_core::{CryptoRng, RngCore, SeedableRng};
use serde_json::{json, Value};
use std::cell::RefCell;
use std::collections::{HashMap, VecDeque};
use std::panic::{catch_unwind, AssertUnwindSafe};
use std::rc::Rc;

/// Mirror of R1CSProof with the same derive layout (fields of the real struct are private).
#[derive(Clone, Debug, CanonicalSerialize, CanonicalDeserialize, PartialEq)]
pub struct ProofM<G: AffineRepr> {
    pub pts: [G; 11],
    pub t_x: G::ScalarField,
    pub t_x_blinding: G::ScalarField,
    pub e_blinding: G::ScalarField,
    pub l_vec: Vec<G>,
    pub r_vec: Vec<G>,
    pub a: G::ScalarField,
    pub b: G::ScalarField,
}
pub const PT_NAMES: [&str; 11] = ["AI1", "AO1", "S1", "AI2", "AO2", "S2", "T1", "T3", "T4", "T5", "T6"];

impl<G: AffineRepr> ProofM<G> {
    pub fn from_real(p: &R1CSProof<G>) -> Self {
        let b = ser_c(p);
        Self::deserialize_with_mode(&b[..], Compress::Yes, Validate::No).expect("mirror layout")
    }
    pub fn to_real_unchecked(&self) -> R1CSProof<G> {
        let b = ser_c(self);
        R1CSProof::<G>::deserialize_with_mode(&b[..], Compress::Yes, Validate::No).expect("mirror layout")
    }
    pub fn pt_index(name: &str) -> Option<usize> {
        PT_NAMES.iter().position(|n| *n == name)
    }
}

pub fn proof_json<C: Cv>(p: &ProofM<C::G>) -> Value {
    let mut o = serde_json::Map::new();
    for (i, n) in PT_NAMES.iter().enumerate() {
        o.insert(n.to_string(), enc_p::<C>(&p.pts[i]));
    }
    o.insert("tx".into(), enc_s::<C>(&p.t_x));
    o.insert("txb".into(), enc_s::<C>(&p.t_x_blinding));
    o.insert("eb".into(), enc_s::<C>(&p.e_blinding));
    o.insert("L".into(), Value::Array(p.l_vec.iter().map(enc_p::<C>).collect()));
    o.insert("R".into(), Value::Array(p.r_vec.iter().map(enc_p::<C>).collect()));
    o.insert("a".into(), enc_s::<C>(&p.a));
    o.insert("b".into(), enc_s::<C>(&p.b));
    Value::Object(o)
}

/// Apply adversarial edits to a proof. Returns the edited encoding (bit flips and truncation act on bytes).
pub fn apply_edits<C: Cv>(p: &ProofM<C::G>, edits: &[Edit]) -> Vec<u8> {
    apply_edits_r::<C>(p, edits, None)
}

/// `r`: the verifier's combiner for the unaltered proof (needed by Edit::Rshift)
pub fn apply_edits_r<C: Cv>(p: &ProofM<C::G>, edits: &[Edit], r: Option<Fr<C>>) -> Vec<u8> {
    let mut m = p.clone();
    let mut bytes: Option<Vec<u8>> = None;
    let g = |v: &Val| gen_mul::<C>(&v.f::<Fr<C>>());
    fn sc<'a, G: AffineRepr>(m: &'a mut ProofM<G>, f: &str) -> &'a mut G::ScalarField {
        match f {
            "tx" => &mut m.t_x,
            "txb" => &mut m.t_x_blinding,
            "eb" => &mut m.e_blinding,
            "a" => &mut m.a,
            "b" => &mut m.b,
            _ => panic!("unknown scalar field {}", f),
        }
    }
    fn pt<'a, G: AffineRepr>(m: &'a mut ProofM<G>, f: &str) -> &'a mut G {
        if let Some(i) = ProofM::<G>::pt_index(f) {
            return &mut m.pts[i];
        }
        // "L3" / "R1": 1-based round
        let (l, k) = f.split_at(1);
        let k: usize = k.parse().expect("round index");
        match l {
            "L" => &mut m.l_vec[k - 1],
            "R" => &mut m.r_vec[k - 1],
            _ => panic!("unknown point field {}", f),
        }
    }
    fn lst<'a, G: AffineRepr>(m: &'a mut ProofM<G>, f: &str) -> &'a mut Vec<G> {
        match f {
            "L" => &mut m.l_vec,
            "R" => &mut m.r_vec,
            _ => panic!("unknown list {}", f),
        }
    }
    for e in edits {
        match e {
            Edit::Add { f, v } => *sc(&mut m, f) += v.f::<Fr<C>>(),
            Edit::Rshift { d } => {
                let d = d.f::<Fr<C>>();
                m.t_x_blinding += d;
                m.e_blinding -= r.unwrap_or_else(Fr::<C>::one) * d;
            }
            Edit::Set { f, v } => *sc(&mut m, f) = v.f::<Fr<C>>(),
            Edit::Addpt { f, v } => {
                let q = (pt(&mut m, f).into_group() + g(v).into_group()).into_affine();
                *pt(&mut m, f) = q;
            }
            Edit::Setpt { f, v } => *pt(&mut m, f) = g(v),
            Edit::Neg { f } => {
                if ["tx", "txb", "eb", "a", "b"].contains(&f.as_str()) {
                    let x = -*sc(&mut m, f);
                    *sc(&mut m, f) = x;
                } else {
                    let q = (-pt(&mut m, f).into_group()).into_affine();
                    *pt(&mut m, f) = q;
                }
            }
            Edit::Swap { f, g } => {
                if ["tx", "txb", "eb", "a", "b"].contains(&f.as_str()) {
                    let x = *sc(&mut m, f);
                    let y = *sc(&mut m, g);
                    *sc(&mut m, f) = y;
                    *sc(&mut m, g) = x;
                } else {
                    let x = *pt(&mut m, f);
                    let y = *pt(&mut m, g);
                    *pt(&mut m, f) = y;
                    *pt(&mut m, g) = x;
                }
            }
            Edit::Droplast { f } => {
                lst(&mut m, f).pop();
            }
            Edit::Duplast { f } => {
                let l = lst(&mut m, f);
                if let Some(x) = l.last().cloned() {
                    l.push(x)
                }
            }
            Edit::Swap01 { f } => {
                let l = lst(&mut m, f);
                if l.len() >= 2 {
                    l.swap(0, 1)
                }
            }
            Edit::Push { f, v } => {
                let q = g(v);
                lst(&mut m, f).push(q)
            }
            Edit::Bitflip { bit } => {
                let mut b = bytes.take().unwrap_or_else(|| ser_c(&m));
                if bit / 8 < b.len() {
                    b[bit / 8] ^= 1 << (bit % 8);
                }
                bytes = Some(b);
            }
            Edit::Truncate { len } => {
                let mut b = bytes.take().unwrap_or_else(|| ser_c(&m));
                b.truncate(*len);
                bytes = Some(b);
            }
        }
    }
    bytes.unwrap_or_else(|| ser_c(&m))
}

// ------------------------------------------------------------------------------------------
// Transcript-operation recorder
// ------------------------------------------------------------------------------------------

pub struct ReplayRng {
    chunks: VecDeque<Vec<u8>>,
    pub ok: bool,
}
impl RngCore for ReplayRng {
    fn next_u32(&mut self) -> u32 {
        let mut b = [0u8; 4];
        self.fill_bytes(&mut b);
        u32::from_le_bytes(b)
    }
    fn next_u64(&mut self) -> u64 {
        let mut b = [0u8; 8];
        self.fill_bytes(&mut b);
        u64::from_le_bytes(b)
    }
    fn fill_bytes(&mut self, dest: &mut [u8]) {
        match self.chunks.pop_front() {
            Some(c) if c.len() == dest.len() => dest.copy_from_slice(&c),
            _ => {
                // (zeros, not 0xff: arkworks samples by rejection, and an all-ones candidate is rejected for ever)
                self.ok = false;
                for d in dest.iter_mut() {
                    *d = 0
                }
            }
        }
    }
    fn try_fill_bytes(&mut self, dest: &mut [u8]) -> Result<(), rand_core::Error> {
        self.fill_bytes(dest);
        Ok(())
    }
}

/// External RNG handed to prove(): seeded ChaCha that counts the bytes taken from it.
pub struct ExtRng {
    pub inner: ChaChaRng,
    pub taken: usize,
}
impl ExtRng {
    pub fn new(seed: u64) -> Self {
        ExtRng { inner: ChaChaRng::seed_from_u64(seed), taken: 0 }
    }
}
impl RngCore for ExtRng {
    fn next_u32(&mut self) -> u32 {
        self.taken += 4;
        self.inner.next_u32()
    }
    fn next_u64(&mut self) -> u64 {
        self.taken += 8;
        self.inner.next_u64()
    }
    fn fill_bytes(&mut self, dest: &mut [u8]) {
        self.taken += dest.len();
        self.inner.fill_bytes(dest)
    }
    fn try_fill_bytes(&mut self, dest: &mut [u8]) -> Result<(), rand_core::Error> {
        self.fill_bytes(dest);
        Ok(())
    }
}
impl CryptoRng for ExtRng {}

/// Converts the traced-Merlin event stream of one role into trace operations.
pub struct TxRec<C: Cv> {
    main: u32,
    forks: HashMap<u32, u32>,
    rngs: HashMap<u32, u32>,
    /// recorded challenge scalars not yet paired with a Challenge event
    pub rng_chunks: Vec<Vec<u8>>,
    pub ext_bytes: Vec<Vec<u8>>,
    /// RNG output calls already turned into draws; for every draw so far, the index of the last output call it consumed
    pub chunk_base: usize,
    pub draw_calls: Vec<usize>,
    _c: std::marker::PhantomData<C>,
}

impl<C: Cv> TxRec<C> {
    pub fn new(main: u32) -> Self {
        TxRec { main, forks: HashMap::new(), rngs: HashMap::new(), rng_chunks: vec![], ext_bytes: vec![], chunk_base: 0, draw_calls: vec![], _c: Default::default() }
    }
    fn fork_of(&self, tid: u32) -> Option<u32> {
        if tid == self.main {
            Some(0)
        } else {
            self.forks.get(&tid).copied()
        }
    }
    /// Drain the Merlin log and the challenge-scalar log; returns the operations as JSON.
    pub fn drain(&mut self) -> Vec<Value> {
        let evs = merlin::trace::drain();
        let mut chals: VecDeque<(Vec<u8>, Vec<u8>)> = ark_bulletproofs::verif_hooks::take_challenges().into();
        ark_bulletproofs::verif_hooks::start_recording_challenges();
        let mut out = vec![];
        for e in evs {
            match e {
                ME::New { .. } => {}
                ME::Append { tid, label, msg } => {
                    if let Some(f) = self.fork_of(tid) {
                        let mut o = classify_payload::<C>(&msg);
                        o["o"] = json!("A");
                        o["l"] = json!(label_str(&label));
                        o["f"] = json!(f);
                        out.push(o);
                    }
                }
                ME::Challenge { tid, label, out: bytes } => {
                    if let Some(f) = self.fork_of(tid) {
                        let mut o = json!({"o":"C","l":label_str(&label),"f":f,"len":bytes.len()});
                        // pair with the scalar the code derived (hook H3), matching labels in order
                        if let Some((l, _)) = chals.front() {
                            if *l == label {
                                let (_, sb) = chals.pop_front().unwrap();
                                if let Ok(s) = Fr::<C>::deserialize_compressed(&sb[..]) {
                                    o["val"] = enc_s::<C>(&s);
                                }
                            }
                        }
                        if !C::TOY {
                            o["hex"] = json!(hex(&bytes));
                        }
                        out.push(o);
                    }
                }
                ME::Clone { parent, child } => {
                    if self.fork_of(parent).is_some() {
                        let k = self.forks.len() as u32 + 1;
                        self.forks.insert(child, k);
                        out.push(json!({"o":"CL","f":k}));
                    }
                }
                ME::RngBuild { tid, rid } => {
                    if let Some(f) = self.fork_of(tid) {
                        self.rngs.insert(rid, f);
                        out.push(json!({"o":"RB","f":f}));
                    }
                }
                ME::Rekey { rid, label, witness } => {
                    if let Some(f) = self.rngs.get(&rid) {
                        let mut o = classify_payload::<C>(&witness);
                        o["o"] = json!("RK");
                        o["l"] = json!(label_str(&label));
                        o["f"] = json!(f);
                        out.push(o);
                    }
                }
                ME::Finalize { rid, ext } => {
                    if let Some(f) = self.rngs.get(&rid) {
                        self.ext_bytes.push(ext);
                        out.push(json!({"o":"RF","f":f}));
                    }
                }
                ME::RngOut { rid, bytes } => {
                    if self.rngs.contains_key(&rid) {
                        self.rng_chunks.push(bytes);
                    }
                }
            }
        }
        out
    }
    /// Turn the RNG output seen so far into the scalars the prover drew (replaying arkworks' own
    /// UniformRand over the recorded chunks). None if the chunks do not parse as a whole number of draws.
    pub fn take_draws(&mut self) -> Option<Vec<Fr<C>>> {
        let total = self.rng_chunks.len();
        let mut r = ReplayRng { chunks: std::mem::take(&mut self.rng_chunks).into(), ok: true };
        let mut out = vec![];
        while !r.chunks.is_empty() {
            let s = Fr::<C>::rand(&mut r);
            if !r.ok {
                return None;
            }
            out.push(s);
            self.draw_calls.push(self.chunk_base + (total - r.chunks.len()) - 1);
        }
        self.chunk_base += total;
        Some(out)
    }
}

// ------------------------------------------------------------------------------------------
// Interpreter
// ------------------------------------------------------------------------------------------

pub struct Ctx<C: Cv> {
    pub events: RefCell<Vec<Value>>,
    pub tx: RefCell<TxRec<C>>,
    pub role: &'static str,
    pub cbs: Vec<Vec<Op>>,
    /// constants of `fix` constraints: written by the prover pass, read by the verifier pass
    pub consts: Rc<RefCell<HashMap<usize, Fr<C>>>>,
    pub chals: RefCell<Vec<Fr<C>>>,
    /// prover: committed values
    pub vals: RefCell<Vec<Fr<C>>>,
    /// prover commitments (points), for the verifier pass
    pub commits: Rc<RefCell<Vec<C::G>>>,
    pub ncommit: RefCell<usize>,
    pub wide: Option<Fr<C>>,
    /// pedersen gens the commitments handed to the verifier are computed with (the prover's)
    pub ppc: PedersenGens<C::G>,
    /// set when the first callback is entered: phase-1 part of prove/verify has been emitted
    pub split_done: RefCell<bool>,
    pub ncb_run: RefCell<usize>,
    pub record: bool,
    pub cap: std::cell::Cell<usize>,
    /// the variable each commit call returned, in call order: ["V", k] in a program means the k-th of them (as a gadget would use it)
    pub vhandles: RefCell<Vec<Variable<Fr<C>>>>,
    /// verify-only runs (fixtures): the commitments handed to the verifier, in order, instead of recomputing them
    pub given_commits: RefCell<VecDeque<C::G>>,
}

impl<C: Cv> Ctx<C> {
    pub fn var(&self, k: &str, i: usize) -> Variable<Fr<C>> {
        if k == "V" {
            if let Some(v) = self.vhandles.borrow().get(i) {
                return *v;
            }
        }
        var_of(k, i)
    }
    fn val(&self, v: &Val) -> Fr<C> {
        let f: Fr<C> = v.f();
        match (&self.wide, v) {
            (Some(w), Val::I(_)) => f * w,
            _ => f,
        }
    }
    fn coef(&self, c: &Coef) -> Fr<C> {
        match c {
            Coef::V(v) => self.val(v),
            Coef::Ch { k0, ch, k1 } => {
                let chv = self.chals.borrow().get(*ch).copied().unwrap_or_else(Fr::<C>::one);
                self.val(k0) + self.val(k1) * chv
            }
        }
    }
    fn emit(&self, mut ev: Value) {
        if !self.record {
            let _ = self.tx.borrow_mut().drain();
            return;
        }
        let ops = self.tx.borrow_mut().drain();
        ev["tx"] = Value::Array(ops);
        ev["role"] = json!(self.role);
        self.events.borrow_mut().push(ev);
    }
}

pub fn var_of<F: ark_ff::PrimeField>(k: &str, i: usize) -> Variable<F> {
    match k {
        "L" => Variable::MultiplierLeft(i),
        "R" => Variable::MultiplierRight(i),
        "O" => Variable::MultiplierOutput(i),
        "V" => Variable::Committed(i),
        "1" => Variable::One(),
        _ => panic!("bad variable kind {}", k),
    }
}
pub fn var_json<F: ark_ff::PrimeField>(v: &Variable<F>) -> Value {
    match v {
        Variable::MultiplierLeft(i) => json!(["L", i]),
        Variable::MultiplierRight(i) => json!(["R", i]),
        Variable::MultiplierOutput(i) => json!(["O", i]),
        Variable::Committed(i) => json!(["V", i]),
        Variable::One() => json!(["1", 0]),
        _ => json!(["?", 0]),
    }
}

pub fn err_name(e: &R1CSError) -> &'static str {
    match e {
        R1CSError::InvalidGeneratorsLength => "InvalidGeneratorsLength",
        R1CSError::FormatError => "FormatError",
        R1CSError::VerificationError => "VerificationError",
        R1CSError::MissingAssignment => "MissingAssignment",
        R1CSError::GadgetError { .. } => "GadgetError",
    }
}

/// Role-specific capabilities the generic interpreter cannot express through the traits.
pub struct Hooks<'h, C: Cv, CS> {
    pub commit: Option<&'h dyn Fn(&mut CS, Fr<C>, Fr<C>) -> (C::G, Variable<Fr<C>>)>,
    pub chal: Option<&'h dyn Fn(&mut CS, &'static [u8]) -> Fr<C>>,
    pub gate: Option<&'h dyn Fn(&CS, usize) -> (Fr<C>, Fr<C>, Fr<C>)>,
    pub setgate: Option<&'h dyn Fn(&mut CS, usize, Fr<C>, Fr<C>, Fr<C>)>,
    pub defer: Option<&'h dyn Fn(&mut CS, usize)>,
}

fn leak(s: &str) -> &'static [u8] {
    // labels must be 'static; programs are few and small
    thread_local! { static POOL: RefCell<HashMap<String, &'static [u8]>> = RefCell::new(HashMap::new()); }
    POOL.with(|p| {
        let mut p = p.borrow_mut();
        if let Some(x) = p.get(s) {
            return *x;
        }
        let l: &'static [u8] = Box::leak(s.as_bytes().to_vec().into_boxed_slice());
        p.insert(s.to_string(), l);
        l
    })
}
pub fn static_label(s: &str) -> &'static [u8] {
    leak(s)
}

fn terms<C: Cv>(cx: &Ctx<C>, ts: &[Term]) -> Vec<(Variable<Fr<C>>, Fr<C>)> {
    ts.iter().map(|(k, i, c)| (cx.var(k, *i), cx.coef(c))).collect()
}
fn terms_json<C: Cv>(ts: &[(Variable<Fr<C>>, Fr<C>)]) -> Value {
    Value::Array(
        ts.iter()
            .map(|(v, c)| {
                let vj = var_json(v);
                json!([vj[0], vj[1], enc_s::<C>(c)])
            })
            .collect(),
    )
}
fn lc_of<C: Cv>(ts: &[(Variable<Fr<C>>, Fr<C>)]) -> LinearCombination<Fr<C>> {
    ts.iter().cloned().collect()
}

/// value of a term list under the prover's current assignment
fn eval_terms<C: Cv, CS>(cs: &CS, cx: &Ctx<C>, hk: &Hooks<C, CS>, ts: &[(Variable<Fr<C>>, Fr<C>)]) -> Fr<C> {
    let gate = hk.gate.expect("eval needs the gate hook");
    let mut acc = Fr::<C>::zero();
    for (v, c) in ts {
        let x = match v {
            Variable::MultiplierLeft(i) => gate(cs, *i).0,
            Variable::MultiplierRight(i) => gate(cs, *i).1,
            Variable::MultiplierOutput(i) => gate(cs, *i).2,
            Variable::Committed(i) => cx.vals.borrow()[*i],
            Variable::One() => Fr::<C>::one(),
            _ => Fr::<C>::zero(),
        };
        acc += *c * x;
    }
    acc
}

/// Build an expression with the real operator impls; also return the flattened term list the
/// operators produced (read back through a round trip is impossible: terms are private), so the
/// harness mirrors the expression with its own evaluator for the constant.
pub fn build_expr<C: Cv>(cx: &Ctx<C>, e: &Expr) -> LinearCombination<Fr<C>> {
    type LC<C> = LinearCombination<Fr<C>>;
    match e {
        Expr::Var { k, i } => LC::<C>::from(cx.var(k, *i)),
        Expr::FromVar { k, i } => LC::<C>::from(cx.var(k, *i)),
        Expr::One => LC::<C>::from(Variable::One()),
        Expr::Const { c } => LC::<C>::from(cx.val(c)),
        Expr::Zero => LC::<C>::default(),
        Expr::Add { a, b } => match (&**a, &**b) {
            // exercise the Variable + X impls when the left operand is a bare variable
            (Expr::Var { k, i }, _) => cx.var(k, *i) + build_expr(cx, b),
            _ => build_expr(cx, a) + build_expr(cx, b),
        },
        Expr::Sub { a, b } => match (&**a, &**b) {
            (Expr::Var { k, i }, _) => cx.var(k, *i) - build_expr(cx, b),
            _ => build_expr(cx, a) - build_expr(cx, b),
        },
        Expr::Neg { a } => match &**a {
            Expr::Var { k, i } => -cx.var(k, *i),
            _ => -build_expr(cx, a),
        },
        Expr::Mul { a, c } => match &**a {
            Expr::Var { k, i } => cx.var(k, *i) * cx.val(c),
            _ => build_expr(cx, a) * cx.val(c),
        },
        Expr::Collect { terms } => terms.iter().map(|(k, i, c)| (cx.var(k, *i), cx.val(c))).collect(),
    }
}
/// the meaning of an expression under the prover's assignment (harness evaluator, independent of the operators)
fn denote<C: Cv, CS>(cs: &CS, cx: &Ctx<C>, hk: &Hooks<C, CS>, e: &Expr) -> Fr<C> {
    let var = |k: &str, i: usize| eval_terms(cs, cx, hk, &[(cx.var(k, i), Fr::<C>::one())]);
    match e {
        Expr::Var { k, i } | Expr::FromVar { k, i } => var(k, *i),
        Expr::One => Fr::<C>::one(),
        Expr::Const { c } => cx.val(c),
        Expr::Zero => Fr::<C>::zero(),
        Expr::Add { a, b } => denote(cs, cx, hk, a) + denote(cs, cx, hk, b),
        Expr::Sub { a, b } => denote(cs, cx, hk, a) - denote(cs, cx, hk, b),
        Expr::Neg { a } => -denote(cs, cx, hk, a),
        Expr::Mul { a, c } => denote(cs, cx, hk, a) * cx.val(c),
        Expr::Collect { terms } => terms.iter().map(|(k, i, c)| var(k, *i) * cx.val(c)).sum(),
    }
}

/// Execute one op against a constraint system, recording the call.
pub fn exec_op<C: Cv, CS: ConstraintSystem<Fr<C>>>(
    cs: &mut CS,
    op: &Op,
    cx: &Ctx<C>,
    ph: u8,
    hk: &Hooks<C, CS>,
) -> Result<(), R1CSError> {
    let r = exec_op_inner(cs, op, cx, ph, hk);
    // the gate count after the call is part of what the call returns to an observer (C16)
    if cx.record {
        if let Some(last) = cx.events.borrow_mut().last_mut() {
            if last["ev"] == "call" && last.get("mlen").is_none() {
                last["mlen"] = json!(cs.multipliers_len());
            }
        }
    }
    r
}

fn exec_op_inner<C: Cv, CS: ConstraintSystem<Fr<C>>>(
    cs: &mut CS,
    op: &Op,
    cx: &Ctx<C>,
    ph: u8,
    hk: &Hooks<C, CS>,
) -> Result<(), R1CSError> {
    let is_p = cx.role == "P";
    match op {
        Op::Commit { v, vb } => {
            let (v, vb) = (cx.val(v), cx.val(vb));
            let commit = hk.commit.expect("commit outside phase 1");
            if is_p {
                cx.vals.borrow_mut().push(v);
            }
            let (pt, var) = commit(cs, v, vb);
            cx.vhandles.borrow_mut().push(var);
            if is_p {
                cx.commits.borrow_mut().push(pt);
                cx.emit(json!({"ev":"call","ph":ph,"op":"commit","v":enc_s::<C>(&v),"vb":enc_s::<C>(&vb),
                               "ret":[enc_p::<C>(&pt), var_json(&var)],"err":""}));
            } else {
                cx.emit(json!({"ev":"call","ph":ph,"op":"commit","V":enc_p::<C>(&pt),"ret":var_json(&var),"err":""}));
            }
            Ok(())
        }
        Op::Alloc { a } => {
            let a = a.as_ref().map(|x| cx.val(x));
            let r = cs.allocate(a);
            let opname = if a.is_some() { "alloc" } else { "alloc_none" };
            let mut ev = json!({"ev":"call","ph":ph,"op":opname});
            if let Some(a) = a {
                ev["a"] = enc_s::<C>(&a);
            }
            match &r {
                Ok(v) => {
                    ev["ret"] = var_json(v);
                    ev["err"] = json!("");
                }
                Err(e) => {
                    ev["ret"] = json!([]);
                    ev["err"] = json!(err_name(e));
                }
            }
            cx.emit(ev);
            r.map(|_| ())
        }
        Op::Allocmul { l, r } => {
            let lr = match (l, r) {
                (Some(l), Some(r)) => Some((cx.val(l), cx.val(r))),
                _ => None,
            };
            let res = cs.allocate_multiplier(lr);
            let opname = if lr.is_some() { "allocmul" } else { "allocmul_none" };
            let mut ev = json!({"ev":"call","ph":ph,"op":opname});
            if let Some((l, r)) = lr {
                ev["l"] = enc_s::<C>(&l);
                ev["r"] = enc_s::<C>(&r);
            }
            match &res {
                Ok((a, b, c)) => {
                    ev["ret"] = json!([var_json(a), var_json(b), var_json(c)]);
                    ev["err"] = json!("");
                }
                Err(e) => {
                    ev["ret"] = json!([]);
                    ev["err"] = json!(err_name(e));
                }
            }
            cx.emit(ev);
            res.map(|_| ())
        }
        Op::Mul { l, r } => {
            let (lt, rt) = (terms(cx, l), terms(cx, r));
            let (a, b, c) = cs.multiply(lc_of::<C>(&lt), lc_of::<C>(&rt));
            cx.emit(json!({"ev":"call","ph":ph,"op":"mul","l":terms_json::<C>(&lt),"r":terms_json::<C>(&rt),
                           "ret":[var_json(&a), var_json(&b), var_json(&c)],"err":""}));
            Ok(())
        }
        Op::Con { lc, fix, delta, split } => {
            let mut ts = terms(cx, lc);
            if let Some(id) = fix {
                // k: the constant that satisfies the constraint, d: the stated offset
                let (k, d) = if is_p {
                    let d = delta.as_ref().map(|d| cx.val(d)).unwrap_or_else(Fr::<C>::zero);
                    let k = -eval_terms(cs, cx, hk, &ts);
                    cx.consts.borrow_mut().insert(*id, k);
                    cx.consts.borrow_mut().insert(*id + (1 << 40), d);
                    (k, d)
                } else {
                    // (the verifier's own statement may spell another offset than the prover's: a deviating statement)
                    (cx.consts.borrow().get(id).copied().unwrap_or_else(Fr::<C>::zero),
                     match delta {
                         Some(d) => cx.val(d),
                         None => cx.consts.borrow().get(&(*id + (1 << 40))).copied().unwrap_or_else(Fr::<C>::zero),
                     })
                };
                match split.as_deref() {
                    Some("first") => { ts.push((Variable::One(), k)); ts.push((Variable::One(), d)); }
                    Some("last") => { ts.push((Variable::One(), d)); ts.push((Variable::One(), k)); }
                    _ => ts.push((Variable::One(), k + d)),
                }
            }
            cs.constrain(lc_of::<C>(&ts));
            cx.emit(json!({"ev":"call","ph":ph,"op":"con","lc":terms_json::<C>(&ts),"ret":[],"err":""}));
            Ok(())
        }
        Op::Expr { e, fix, delta } => {
            let mut lc = build_expr(cx, e);
            let mut cj: Option<Value> = None;
            let dval = delta.as_ref().map(|d| cx.val(d)).unwrap_or_else(Fr::<C>::zero);
            if let Some(id) = fix {
                let c = if is_p {
                    let d = delta.as_ref().map(|d| cx.val(d)).unwrap_or_else(Fr::<C>::zero);
                    let c = -denote(cs, cx, hk, e) + d;
                    cx.consts.borrow_mut().insert(*id, c);
                    c
                } else {
                    cx.consts.borrow().get(id).copied().unwrap_or_else(Fr::<C>::zero)
                };
                lc = lc + c;
                cj = Some(enc_s::<C>(&c));
            }
            cs.constrain(lc);
            // the flattened terms are private to the library: the trace carries the expression tree and the
            // constant; the specification flattens the tree with its own transcription of the operators
            let mut ev = json!({"ev":"call","ph":ph,"op":"expr","e":serde_json::to_value(e).unwrap(),"ret":[],"err":""});
            if let Some(c) = cj {
                ev["c"] = c;
                ev["d"] = enc_s::<C>(&dval);
            }
            cx.emit(ev);
            Ok(())
        }
        Op::Append { label, data } => {
            cs.transcript().append_message(leak(label), data);
            cx.emit(json!({"ev":"call","ph":ph,"op":"append","label":label,"data":data,"ret":[],"err":""}));
            Ok(())
        }
        Op::Defer { cb } => {
            (hk.defer.expect("defer outside phase 1"))(cs, *cb);
            cx.emit(json!({"ev":"call","ph":ph,"op":"defer","cb":cb,"ret":[],"err":""}));
            Ok(())
        }
        Op::Chal { label } => {
            let c = (hk.chal.expect("challenge outside a callback"))(cs, leak(label));
            cx.chals.borrow_mut().push(c);
            cx.emit(json!({"ev":"call","ph":ph,"op":"chal","label":label,"val":enc_s::<C>(&c),"ret":[],"err":""}));
            Ok(())
        }
        Op::Breakgate { i, delta } => {
            if let (Some(gate), Some(setgate)) = (hk.gate, hk.setgate) {
                let (l, r, o) = gate(cs, *i);
                let o2 = o + cx.val(delta);
                setgate(cs, *i, l, r, o2);
                cx.emit(json!({"ev":"call","ph":ph,"op":"setgate","i":i,"l":enc_s::<C>(&l),"r":enc_s::<C>(&r),
                               "o":enc_s::<C>(&o2),"ret":[],"err":""}));
            } else {
                // the verifier has no assignment to overwrite; the call is recorded so that both roles list the same calls
                cx.emit(json!({"ev":"call","ph":ph,"op":"setgate","i":i,"ret":[],"err":""}));
            }
            Ok(())
        }
        Op::Fail => {
            cx.emit(json!({"ev":"call","ph":ph,"op":"fail","ret":[],"err":"GadgetError"}));
            Err(R1CSError::GadgetError { description: "verif: closure failed".to_string() })
        }
        Op::Len => {
            let n = cs.multipliers_len();
            cx.emit(json!({"ev":"call","ph":ph,"op":"len","ret":n,"err":""}));
            Ok(())
        }
    }
}

/// Body of a deferred callback, for either role.
/// the prover's assignment of every gate, as read through the hook (C16: a half gate is closed with right wire and output zero)
fn gates_snapshot<C: Cv, CS: ConstraintSystem<Fr<C>>>(cs: &CS, cx: &Ctx<C>, hk: &Hooks<C, CS>, when: &str) {
    if let (Some(gate), true) = (hk.gate, cx.record) {
        let n = cs.multipliers_len();
        let vals: Vec<Value> = (0..n).map(|i| { let (l, r, o) = gate(cs, i); json!([enc_s::<C>(&l), enc_s::<C>(&r), enc_s::<C>(&o)]) }).collect();
        cx.events.borrow_mut().push(json!({"ev":"gates","role":cx.role,"when":when,"vals":vals}));
    }
}

fn run_cb<C: Cv, CS: ConstraintSystem<Fr<C>>>(
    rcs: &mut CS,
    k: usize,
    cx: &Rc<Ctx<C>>,
    hk: &Hooks<C, CS>,
    on_first_entry: &dyn Fn(),
) -> Result<(), R1CSError> {
    if !*cx.split_done.borrow() {
        *cx.split_done.borrow_mut() = true;
        on_first_entry();
    }
    *cx.ncb_run.borrow_mut() += 1;
    let ops = cx.cbs.get(k).cloned().unwrap_or_default();
    for op in &ops {
        exec_op(rcs, op, cx, 2, hk)?;
    }
    gates_snapshot(rcs, cx, hk, "callback-end");
    Ok(())
}

pub struct Gens<C: Cv> {
    pub pc: PedersenGens<C::G>,
    pub bp: BulletproofGens<C::G>,
}

pub fn make_pc<C: Cv>(spec: &PcSpec) -> PedersenGens<C::G> {
    let d = PedersenGens::<C::G>::default();
    let b = match &spec.b {
        None => d.B,
        Some(v) => gen_mul::<C>(&v.f::<Fr<C>>()),
    };
    let bb = match &spec.bb {
        None => d.B_blinding,
        Some(v) => (d.B_blinding.into_group() * v.f::<Fr<C>>()).into_affine(),
    };
    PedersenGens { B: b, B_blinding: bb }
}

/// Mirror of BulletproofGens with the same derive layout (its vectors are private).
#[derive(Clone, CanonicalSerialize, CanonicalDeserialize)]
pub struct GensM<G: AffineRepr> {
    pub gens_capacity: usize,
    pub party_capacity: usize,
    pub g_vec: Vec<Vec<G>>,
    pub h_vec: Vec<Vec<G>>,
}

/// the table a side hands to prove / verify: built by the side's generator history (default: new(cap, 1)).
/// With `events`, every step is recorded with the table it left behind (all parties' chains) or the view it returned.
pub fn make_bp<C: Cv>(side: &Side, role: &str, mut events: Option<&mut Vec<Value>>) -> BulletproofGens<C::G> {
    if side.gh.is_empty() {
        return BulletproofGens::<C::G>::new(side.cap, 1);
    }
    let mut bp: Option<BulletproofGens<C::G>> = None;
    for op in &side.gh {
        let mut ev = json!({"ev": "gens", "role": role});
        match op {
            GOp::New { cap, parties } => {
                bp = Some(BulletproofGens::<C::G>::new(*cap, *parties));
                ev["g"] = json!("new");
                ev["argcap"] = json!(cap);
                ev["argparties"] = json!(parties);
            }
            GOp::Inc { cap } => {
                bp.as_mut().expect("table").increase_capacity(*cap);
                ev["g"] = json!("inc");
                ev["argcap"] = json!(cap);
            }
            GOp::Ser => {
                let b = ser_c(bp.as_ref().expect("table"));
                bp = Some(BulletproofGens::<C::G>::deserialize_compressed(&b[..]).expect("gens round trip"));
                ev["g"] = json!("ser");
            }
            GOp::Clone => {
                let c = bp.as_ref().expect("table").clone();
                bp = Some(c);
                ev["g"] = json!("clone");
            }
            GOp::View { kind, n, m } => {
                let t = bp.as_ref().expect("table");
                let r = catch_unwind(AssertUnwindSafe(|| -> Vec<Value> {
                    if kind == "G" { t.G(*n, *m).map(enc_p::<C>).collect() } else { t.H(*n, *m).map(enc_p::<C>).collect() }
                }));
                ev["g"] = json!("view");
                ev["kind"] = json!(kind);
                ev["n"] = json!(n);
                ev["m"] = json!(m);
                // the same view walked in other ways an iterator can be walked (nth, skip after next, step_by, count, last, size_hint):
                // every walk must list what plain iteration lists
                let walks = catch_unwind(AssertUnwindSafe(|| -> Vec<String> {
                    let view = || -> Box<dyn Iterator<Item = &C::G> + '_> { if kind == "G" { Box::new(t.G(*n, *m)) } else { Box::new(t.H(*n, *m)) } };
                    let plain: Vec<C::G> = view().cloned().collect();
                    let len = plain.len();
                    let mut bad = vec![];
                    let cap_take = len + 2;
                    if view().step_by(1).take(cap_take).cloned().collect::<Vec<_>>() != plain {
                        bad.push("step_by(1)".to_string());
                    }
                    if len > 0 {
                        let every2: Vec<C::G> = plain.iter().step_by(2).cloned().collect();
                        if view().step_by(2).take(cap_take).cloned().collect::<Vec<_>>() != every2 {
                            bad.push("step_by(2)".to_string());
                        }
                    }
                    for j in 0..=len {
                        if view().nth(j).cloned() != plain.get(j).cloned() {
                            bad.push(format!("nth({})", j));
                            break;
                        }
                    }
                    // next() k times, then nth(d): must land on element k + d
                    'outer: for k in 0..=len.min(6) {
                        for d in 0..=2usize {
                            let mut it = view();
                            for _ in 0..k { it.next(); }
                            if it.nth(d).cloned() != plain.get(k + d).cloned() {
                                bad.push(format!("{} x next() then nth({})", k, d));
                                break 'outer;
                            }
                        }
                    }
                    for k in 0..=len.min(6) {
                        let mut it = view();
                        for _ in 0..k { it.next(); }
                        let rest: Vec<C::G> = it.skip(1).take(cap_take).cloned().collect();
                        if rest != plain.iter().skip(k + 1).cloned().collect::<Vec<_>>() {
                            bad.push(format!("{} x next() then skip(1)", k));
                            break;
                        }
                    }
                    if view().count() != len { bad.push("count()".to_string()); }
                    if view().last().cloned() != plain.last().cloned() { bad.push("last()".to_string()); }
                    if *m >= 1 {
                        // (size_hint subtracts from n * (m - party): defined for m >= 1)
                        let mut it = view();
                        for k in 0..=len {
                            let (lo, hi) = it.size_hint();
                            if lo > len - k || hi.map(|h| h < len - k).unwrap_or(false) {
                                bad.push(format!("size_hint() after {} items: ({}, {:?}), {} remain", k, lo, hi, len - k));
                                break;
                            }
                            it.next();
                        }
                    }
                    bad
                }));
                ev["walks_bad"] = match walks { Ok(b) => json!(b), Err(p) => json!([format!("panic: {}", panic_msg(p))]) };
                match r {
                    Ok(v) => ev["ret"] = Value::Array(v),
                    Err(p) => ev["panic"] = json!(panic_msg(p)),
                }
            }
        }
        if let Some(evs) = events.as_deref_mut() {
            let t = bp.as_ref().expect("table");
            ev["cap"] = json!(t.gens_capacity);
            ev["parties"] = json!(t.party_capacity);
            if !matches!(op, GOp::View { .. }) {
                // the stored table itself, read through a mirror of the struct's derived layout (not through the view iterators)
                let tab = |v: &Vec<Vec<C::G>>| Value::Array(v.iter().map(|row| Value::Array(row.iter().map(enc_p::<C>).collect())).collect());
                let ser = ser_c(t);
                match GensM::<C::G>::deserialize_with_mode(&ser[..], Compress::Yes, Validate::No) {
                    // (a trailing-bytes check: a different layout may happen to parse as a shorter table)
                    Ok(raw) if ser_c(&raw) == ser => {
                        ev["G"] = tab(&raw.g_vec);
                        ev["H"] = tab(&raw.h_vec);
                        ev["rawcap"] = json!(raw.gens_capacity);
                        ev["rawparties"] = json!(raw.party_capacity);
                        ev["src"] = json!("stored");
                    }
                    _ => {
                        // the serialisation no longer has the derived layout (not a property): read the table through the public views instead
                        let (cap, np) = (t.gens_capacity, t.party_capacity);
                        let split = |all: Vec<C::G>| -> Vec<Vec<C::G>> { (0..np).map(|j| all.iter().skip(j * cap).take(cap).cloned().collect()).collect() };
                        let g = catch_unwind(AssertUnwindSafe(|| (split(t.G(cap, np).cloned().collect()), split(t.H(cap, np).cloned().collect()))));
                        match g {
                            Ok((gv, hv)) => {
                                ev["G"] = tab(&gv);
                                ev["H"] = tab(&hv);
                            }
                            Err(_) => {
                                ev["G"] = json!([]);
                                ev["H"] = json!([]);
                            }
                        }
                        ev["rawcap"] = json!(cap);
                        ev["rawparties"] = json!(np);
                        ev["src"] = json!("views");
                    }
                }
            }
            evs.push(ev);
        }
    }
    bp.expect("generator history without new")
}

fn gens_json<C: Cv>(g: &Gens<C>) -> Value {
    if g.bp.party_capacity == 0 {
        return json!({"B": enc_p::<C>(&g.pc.B), "Bb": enc_p::<C>(&g.pc.B_blinding), "G": [], "H": []});
    }
    // (a table whose vectors are shorter than its advertised capacity makes the view panic: recorded as an empty table)
    let views = catch_unwind(AssertUnwindSafe(|| -> (Vec<Value>, Vec<Value>) {
        (g.bp.G(g.bp.gens_capacity, 1).map(enc_p::<C>).collect(), g.bp.H(g.bp.gens_capacity, 1).map(enc_p::<C>).collect())
    }));
    let (gv, hv) = views.unwrap_or((vec![], vec![]));
    json!({"B": enc_p::<C>(&g.pc.B), "Bb": enc_p::<C>(&g.pc.B_blinding), "G": gv, "H": hv})
}

pub struct RunOut<C: Cv> {
    pub events: Vec<Value>,
    pub pres: String,
    pub vres: String,
    pub proof: Option<ProofM<C::G>>,
    pub proof_bytes: Option<Vec<u8>>,
    pub wire_bytes: Option<Vec<u8>>,
    pub decode: String,
    pub ptr_next: Option<Vec<u8>>,
    pub vtr_next: Option<Vec<u8>>,
}

fn panic_msg(e: Box<dyn std::any::Any + Send>) -> String {
    if let Some(s) = e.downcast_ref::<&str>() {
        s.to_string()
    } else if let Some(s) = e.downcast_ref::<String>() {
        s.clone()
    } else {
        "panic".to_string()
    }
}

pub fn new_ctx_pub<C: Cv>(
    role: &'static str,
    side: &Side,
    main_tid: u32,
    consts: Rc<RefCell<HashMap<usize, Fr<C>>>>,
    commits: Rc<RefCell<Vec<C::G>>>,
    wide: Option<Fr<C>>,
    ppc: PedersenGens<C::G>,
) -> Rc<Ctx<C>> {
    new_ctx::<C>(role, side, main_tid, consts, commits, wide, ppc, false)
}

fn new_ctx<C: Cv>(
    role: &'static str,
    side: &Side,
    main_tid: u32,
    consts: Rc<RefCell<HashMap<usize, Fr<C>>>>,
    commits: Rc<RefCell<Vec<C::G>>>,
    wide: Option<Fr<C>>,
    ppc: PedersenGens<C::G>,
    record: bool,
) -> Rc<Ctx<C>> {
    Rc::new(Ctx {
        events: RefCell::new(vec![]),
        tx: RefCell::new(TxRec::new(main_tid)),
        role,
        cbs: side.cbs.clone(),
        consts,
        chals: RefCell::new(vec![]),
        vals: RefCell::new(vec![]),
        commits,
        ncommit: RefCell::new(0),
        wide,
        ppc,
        split_done: RefCell::new(false),
        ncb_run: RefCell::new(0),
        record,
        cap: std::cell::Cell::new(side.cap),
        vhandles: RefCell::new(vec![]),
        given_commits: RefCell::new(VecDeque::new()),
    })
}

fn draws_json<C: Cv>(d: &Option<Vec<Fr<C>>>) -> Value {
    match d {
        Some(v) => Value::Array(v.iter().map(enc_s::<C>).collect()),
        None => json!([]),
    }
}

/// next 32 challenge bytes of a transcript (C06: the returned transcripts drive identical follow-ups)
fn squeeze(t: &mut Transcript) -> Vec<u8> {
    let mut b = [0u8; 32];
    t.challenge_bytes(b"verif-follow-up", &mut b);
    b.to_vec()
}

pub struct ProverOut<C: Cv> {
    pub res: String,
    pub proof: Option<R1CSProof<C::G>>,
    pub next: Option<Vec<u8>>,
    pub events: Vec<Value>,
    /// for every scalar the prover drew from its RNG (both phases, in order): the RNG output call that produced it
    pub draw_calls: Vec<usize>,
}

/// Build a prover from `side`, prove, record.
pub fn run_prover<C: Cv>(
    side: &Side,
    seed: u64,
    wide: Option<Fr<C>>,
    consts: Rc<RefCell<HashMap<usize, Fr<C>>>>,
    commits: Rc<RefCell<Vec<C::G>>>,
    record: bool,
) -> ProverOut<C> {
    let pc = make_pc::<C>(&side.pc);
    let mut gens_events = vec![];
    let bp = make_bp::<C>(side, "P", if record { Some(&mut gens_events) } else { None });
    merlin::trace::start();
    ark_bulletproofs::verif_hooks::start_recording_challenges();
    let mut t = Transcript::new(leak(&side.label));
    for (l, d) in &side.pre {
        t.append_message(leak(l), d);
    }
    let cx = new_ctx::<C>("P", side, t.verif_tid(), consts, commits, wide, pc, record);
    cx.cap.set(bp.gens_capacity);
    cx.events.borrow_mut().extend(gens_events);
    let mut ext = ExtRng::new(seed);
    let result = {
        let cxr = cx.clone();
        let bpr = &bp;
        let pcr = &pc;
        let tr = &mut t;
        let extr = &mut ext;
        catch_unwind(AssertUnwindSafe(move || {
            let cx = cxr;
            let mut prover = Prover::<C::G, &mut Transcript>::new(pcr, tr);
            cx.emit(json!({"ev":"new"}));
            type PR<'a, C> = Prover<'a, <C as Cv>::G, &'a mut Transcript>;
            type RP<'a, C> = <PR<'a, C> as RandomizableConstraintSystem<Fr<C>>>::RandomizedCS;
            let commit = |p: &mut PR<C>, v: Fr<C>, vb: Fr<C>| p.commit(v, vb);
            let gate = |p: &PR<C>, i: usize| p.verif_gate(i);
            let setgate = |p: &mut PR<C>, i: usize, l: Fr<C>, r: Fr<C>, o: Fr<C>| p.verif_overwrite_gate(i, l, r, o);
            let cxd = cx.clone();
            let defer = move |p: &mut PR<C>, k: usize| {
                let cxc = cxd.clone();
                p.specify_randomized_constraints(move |rcs: &mut RP<C>| {
                    let chal = |r: &mut RP<C>, l: &'static [u8]| RandomizedConstraintSystem::challenge_scalar(r, l);
                    let hk = Hooks::<C, RP<C>> {
                        commit: None,
                        chal: Some(&chal),
                        gate: Some(&|r: &RP<C>, i| r.verif_gate(i)),
                        setgate: Some(&|r: &mut RP<C>, i, a, b, c| r.verif_overwrite_gate(i, a, b, c)),
                        defer: None,
                    };
                    let cxe = cxc.clone();
                    let first = move || {
                        // phase-1 part of prove() is complete: emit it
                        let draws = cxe.tx.borrow_mut().take_draws();
                        let ops = cxe.tx.borrow_mut().drain();
                        let draws = {
                            // drain() may have collected more chunks
                            let mut txr = cxe.tx.borrow_mut();
                            match (draws, txr.take_draws()) {
                                (Some(mut a), Some(b)) => {
                                    a.extend(b);
                                    Some(a)
                                }
                                _ => None,
                            }
                        };
                        if cxe.record {
                            cxe.events.borrow_mut().push(json!({"ev":"prove1","role":"P","cap":cxe.cap.get(),"rng":draws_json::<C>(&draws),"rng_ok":draws.is_some(),"tx":ops}));
                        }
                    };
                    run_cb(rcs, k, &cxc, &hk, &first)
                })
                .unwrap();
            };
            let hk = Hooks::<C, PR<C>> { commit: Some(&commit), chal: None, gate: Some(&gate), setgate: Some(&setgate), defer: Some(&defer) };
            let mut early: Option<R1CSError> = None;
            for op in &side.ops {
                if let Err(e) = exec_op(&mut prover, op, &cx, 1, &hk) {
                    // a gadget would propagate the error; keep going only for MissingAssignment probes
                    early = Some(e);
                }
            }
            let _ = early;
            gates_snapshot(&prover, &cx, &hk, "before-prove");
            prover.prove_and_return_transcript(extr, bpr)
        }))
    };
    let ops = cx.tx.borrow_mut().drain();
    let draws = cx.tx.borrow_mut().take_draws();
    let split = *cx.split_done.borrow();
    let (res, proof, next) = match result {
        Ok(Ok((proof, tr))) => {
            let nx = squeeze(tr);
            ("ok".to_string(), Some(proof), Some(nx))
        }
        Ok(Err(e)) => (err_name(&e).to_string(), None, None),
        Err(p) => (format!("panic: {}", panic_msg(p)), None, None),
    };
    let _ = cx.tx.borrow_mut().drain();
    merlin::trace::stop();
    let mut ev = json!({"ev": if split {"prove2"} else {"prove"}, "role":"P", "cap": bp.gens_capacity,
                        "rng": draws_json::<C>(&draws), "rng_ok": draws.is_some(), "tx": ops, "res": res, "ext_taken": ext.taken,
                        "ncb": *cx.ncb_run.borrow()});
    if let Some(p) = &proof {
        let m = ProofM::from_real(p);
        ev["proof"] = proof_json::<C>(&m);
        ev["nbytes"] = json!(ser_c(p).len());
    }
    let mut events = std::mem::take(&mut *cx.events.borrow_mut());
    if record {
        events.push(ev);
    }
    let draw_calls = cx.tx.borrow().draw_calls.clone();
    ProverOut { res, proof, next, events, draw_calls }
}

pub struct VerifierOut {
    pub res: String,
    pub next: Option<Vec<u8>>,
    pub events: Vec<Value>,
}

/// Drive the verifier-side builder calls of `side` on an existing Verifier.
pub fn build_verifier<'a, C: Cv>(
    side: &Side,
    t: &'a mut Transcript,
    cx: &Rc<Ctx<C>>,
    on_first_cb: Rc<dyn Fn()>,
) -> Verifier<C::G, &'a mut Transcript> {
    let mut verifier = Verifier::<C::G, &'a mut Transcript>::new(t);
    cx.emit(json!({"ev":"new"}));
    type VR<'a, C> = Verifier<<C as Cv>::G, &'a mut Transcript>;
    let cxc0 = cx.clone();
    let commit = move |v: &mut VR<C>, val: Fr<C>, vb: Fr<C>| {
        // the verifier is handed a commitment: the Pedersen commitment to (val, vb) under the prover's bases
        // (or, for recorded fixtures, the recorded point)
        let given = cxc0.given_commits.borrow_mut().pop_front();
        let pt = given.unwrap_or_else(|| cxc0.ppc.commit(val, vb));
        let var = v.commit(pt);
        (pt, var)
    };
    let cxd = cx.clone();
    let defer = move |v: &mut VR<C>, k: usize| {
        let cxc = cxd.clone();
        let first = on_first_cb.clone();
        v.specify_randomized_constraints(move |rcs| {
            let chal = |r: &mut _, l: &'static [u8]| RandomizedConstraintSystem::challenge_scalar(r, l);
            let hk = Hooks::<C, _> { commit: None, chal: Some(&chal), gate: None, setgate: None, defer: None };
            run_cb(rcs, k, &cxc, &hk, &*first)
        })
        .unwrap();
    };
    let hk = Hooks::<C, VR<C>> { commit: Some(&commit), chal: None, gate: None, setgate: None, defer: Some(&defer) };
    for op in &side.ops {
        let _ = exec_op(&mut verifier, op, cx, 1, &hk);
    }
    verifier
}

pub fn run_verifier<C: Cv>(
    side: &Side,
    proof: &R1CSProof<C::G>,
    wide: Option<Fr<C>>,
    consts: Rc<RefCell<HashMap<usize, Fr<C>>>>,
    commits: Rc<RefCell<Vec<C::G>>>,
    ppc: PedersenGens<C::G>,
    record: bool,
) -> VerifierOut {
    let pc = make_pc::<C>(&side.pc);
    let mut gens_events = vec![];
    let bp = make_bp::<C>(side, "V", if record { Some(&mut gens_events) } else { None });
    merlin::trace::start();
    ark_bulletproofs::verif_hooks::start_recording_challenges();
    let mut t = Transcript::new(leak(&side.label));
    for (l, d) in &side.pre {
        t.append_message(leak(l), d);
    }
    let cx = new_ctx::<C>("V", side, t.verif_tid(), consts, commits, wide, ppc, record);
    cx.cap.set(bp.gens_capacity);
    cx.events.borrow_mut().extend(gens_events);
    let result = {
        let cxr = cx.clone();
        let tr = &mut t;
        let (pcr, bpr) = (&pc, &bp);
        catch_unwind(AssertUnwindSafe(move || {
            let cx = cxr;
            let cxe = cx.clone();
            let first: Rc<dyn Fn()> = Rc::new(move || {
                let ops = cxe.tx.borrow_mut().drain();
                if cxe.record {
                    cxe.events.borrow_mut().push(json!({"ev":"verify1","role":"V","cap":cxe.cap.get(),"tx":ops}));
                }
            });
            let verifier = build_verifier::<C>(side, tr, &cx, first);
            verifier.verify_and_return_transcript(proof, pcr, bpr)
        }))
    };
    let ops = cx.tx.borrow_mut().drain();
    let split = *cx.split_done.borrow();
    let (res, next) = match result {
        Ok(Ok(tr)) => {
            let nx = squeeze(tr);
            ("ok".to_string(), Some(nx))
        }
        Ok(Err(e)) => (err_name(&e).to_string(), None),
        Err(p) => (format!("panic: {}", panic_msg(p)), None),
    };
    let _ = cx.tx.borrow_mut().drain();
    merlin::trace::stop();
    let ev = json!({"ev": if split {"verify2"} else {"verify"}, "role":"V", "cap": bp.gens_capacity, "tx": ops, "res": res,
                    "ncb": *cx.ncb_run.borrow(), "panicked": res.starts_with("panic")});
    let mut events = std::mem::take(&mut *cx.events.borrow_mut());
    if record {
        events.push(ev);
    }
    VerifierOut { res, next, events }
}

fn dec_s<C: Cv>(v: &Value) -> Option<Fr<C>> {
    if C::TOY {
        v.as_u64().map(Fr::<C>::from)
    } else {
        v.as_str().and_then(|h| Fr::<C>::deserialize_compressed(&unhex(h)[..]).ok())
    }
}

fn all_draws<C: Cv>(events: &[Value]) -> Option<Vec<Fr<C>>> {
    let mut out = vec![];
    for e in events {
        if matches!(e["ev"].as_str(), Some("prove1") | Some("prove") | Some("prove2")) {
            if e["rng_ok"] != json!(true) {
                return None;
            }
            for v in e["rng"].as_array()? {
                out.push(dec_s::<C>(v)?);
            }
        }
    }
    Some(out)
}

/// C09: which RNG draw plays which role?  Found by intervention: the k-th scalar the prover draws is disturbed (one bit of the RNG
/// output that produced it; the sponge and every other output are untouched) and the proof is made again.  The first group of
/// commitments that differs - (A_I1, A_O1, S1), (A_I2, A_O2, S2), (T_1 .. T_6); later ones depend on challenges derived from it - tells
/// what the draw is used for: a difference of delta * B_blinding in a commitment makes it that commitment's blinding, delta * G_i / H_i in
/// S1 / S2 makes it entry i of a masking vector.  A draw that moves two commitments of one group serves two roles.
/// Returns (all draws of the undisturbed run, role list per draw) or None when the undisturbed run did not produce a proof.
pub fn infer_roles<C: Cv>(prog: &Program, base: &ProverOut<C>) -> Option<(Vec<Fr<C>>, Vec<Vec<Value>>, bool)> {
    let wide = wide_factor::<C>(prog);
    let bproof = ProofM::from_real(base.proof.as_ref()?);
    let d0 = all_draws::<C>(&base.events)?;
    if d0.len() != base.draw_calls.len() {
        return None;
    }
    let pc = make_pc::<C>(&prog.p.pc);
    let bp = make_bp::<C>(&prog.p, "P", None);
    let cap = bp.gens_capacity;
    let (gv, hv): (Vec<C::G>, Vec<C::G>) = if bp.party_capacity >= 1 {
        catch_unwind(AssertUnwindSafe(|| (bp.G(cap, 1).cloned().collect(), bp.H(cap, 1).cloned().collect()))).ok()?
    } else {
        (vec![], vec![])
    };
    let mut roles: Vec<Vec<Value>> = vec![];
    let mut stable = true;
    for k in 0..d0.len() {
        let mut found: Option<(ProofM<C::G>, Fr<C>)> = None;
        for mask in [1u8, 2, 4, 8] {
            merlin::trace::set_rng_fault(Some((base.draw_calls[k], mask)));
            let po = run_prover::<C>(&prog.p, prog.seed, wide, Rc::new(RefCell::new(HashMap::new())), Rc::new(RefCell::new(vec![])), true);
            merlin::trace::set_rng_fault(None);
            let d1 = match all_draws::<C>(&po.events) { Some(d) => d, None => continue };
            // exactly draw k changed (a disturbed value that is rejected by the sampler would shift the whole stream)
            if d1.len() != d0.len() || (0..d0.len()).any(|j| (j == k) != (d1[j] != d0[j])) {
                continue;
            }
            if let Some(p) = &po.proof {
                found = Some((ProofM::from_real(p), d1[k] - d0[k]));
                break;
            }
        }
        let (p1, delta) = match found {
            Some(x) => x,
            None => {
                stable = false;
                roles.push(vec![json!(["unstable", 0, 0])]);
                continue;
            }
        };
        let bb_d = (pc.B_blinding.into_group() * delta).into_affine();
        let mut mine: Vec<Value> = vec![];
        for group in [&[0usize, 1, 2][..], &[3, 4, 5][..], &[6, 7, 8, 9, 10][..]] {
            for &f in group {
                let diff = (p1.pts[f].into_group() - bproof.pts[f].into_group()).into_affine();
                if diff.is_zero() {
                    continue;
                }
                let phase = if f < 3 { 1 } else { 2 };
                // every candidate explanation of the difference; on a small group two candidates can coincide (B~ = G_i): then the
                // intervention does not tell the role and the run is not judged
                let mut cands: Vec<Value> = vec![];
                if diff == bb_d {
                    cands.push(match f {
                        0 | 3 => json!(["i", phase, 0]),
                        1 | 4 => json!(["o", phase, 0]),
                        2 | 5 => json!(["s", phase, 0]),
                        _ => {
                            let k = [1, 3, 4, 5, 6][f - 6];
                            json!(["t", k, 0])
                        }
                    });
                }
                if f == 2 || f == 5 {
                    for i in 0..cap {
                        if diff == (gv[i].into_group() * delta).into_affine() {
                            cands.push(json!(["sL", phase, i]));
                        }
                        if diff == (hv[i].into_group() * delta).into_affine() {
                            cands.push(json!(["sR", phase, i]));
                        }
                    }
                }
                match cands.len() {
                    0 => mine.push(json!(["other", f, 0])),
                    1 => mine.push(cands.pop().unwrap()),
                    _ => {
                        stable = false;
                        mine.push(json!(["ambiguous", f, 0]));
                    }
                }
            }
            if !mine.is_empty() {
                break;
            }
        }
        roles.push(mine);
    }
    Some((d0, roles, stable))
}

pub fn wide_factor<C: Cv>(prog: &Program) -> Option<Fr<C>> {
    if prog.wide {
        let mut r = ChaChaRng::seed_from_u64(prog.seed ^ 0x5157_1d3e);
        let mut w = Fr::<C>::rand(&mut r);
        while w.is_zero() {
            w = Fr::<C>::rand(&mut r);
        }
        Some(w)
    } else {
        None
    }
}

pub fn setup_event<C: Cv>(prog: &Program) -> Value {
    let ps = &prog.p;
    let vs = prog.vside();
    let gp = Gens::<C> { pc: make_pc::<C>(&ps.pc), bp: make_bp::<C>(ps, "P", None) };
    let gv = Gens::<C> { pc: make_pc::<C>(&vs.pc), bp: make_bp::<C>(vs, "V", None) };
    let pt = C::G::generator();
    json!({"ev":"setup","curve":C::NAME,"id":prog.id,"P":gens_json(&gp),"V":gens_json(&gv),
           "ptlen": ser_u(&pt).len(), "sclen": ser_u(&Fr::<C>::one()).len(),
           "cptlen": ser_c(&pt).len(), "csclen": ser_c(&Fr::<C>::one()).len()})
}

/// One complete run: prover, wire (with optional tampering), verifier.
pub fn run_program<C: Cv>(prog: &Program, record: bool) -> RunOut<C> {
    let wide = wide_factor::<C>(prog);
    let consts = Rc::new(RefCell::new(HashMap::new()));
    let commits = Rc::new(RefCell::new(vec![]));
    let mut events = vec![];
    if record {
        events.push(setup_event::<C>(prog));
    }
    let mut po = run_prover::<C>(&prog.p, prog.seed, wide, consts.clone(), commits.clone(), record);
    if prog.roles && record {
        // (no proof, no intervention: the run is then not judged on which draw plays which role)
        let (d0, roles, stable) = infer_roles::<C>(prog, &po).unwrap_or((vec![], vec![], false));
        for e in po.events.iter_mut() {
            if matches!(e["ev"].as_str(), Some("prove1") | Some("prove") | Some("prove2")) {
                e["allrng"] = Value::Array(d0.iter().map(enc_s::<C>).collect());
                e["roles"] = json!(roles);
                e["roles_stable"] = json!(stable);
            }
        }
    }
    events.extend(po.events);
    let mut out = RunOut::<C> {
        events: vec![],
        pres: po.res.clone(),
        vres: String::new(),
        proof: None,
        proof_bytes: None,
        wire_bytes: None,
        decode: String::new(),
        ptr_next: po.next,
        vtr_next: None,
    };
    if let Some(proof) = &po.proof {
        let m = ProofM::from_real(proof);
        let bytes = proof.to_bytes().expect("to_bytes");
        out.proof_bytes = Some(bytes.clone());
        out.proof = Some(m.clone());
        // the combiner attack needs the weight r the verifier derives for the unaltered proof: verify once, silently, and read it
        let mut r_honest: Option<Fr<C>> = None;
        if prog.tamper.iter().any(|e| matches!(e, Edit::Rshift { .. })) {
            let ppc0 = make_pc::<C>(&prog.p.pc);
            let vo0 = run_verifier::<C>(prog.vside(), proof, wide, consts.clone(), commits.clone(), ppc0, true);
            for e in &vo0.events {
                if matches!(e["ev"].as_str(), Some("verify") | Some("verify2")) {
                    for o in e["tx"].as_array().cloned().unwrap_or_default() {
                        if o["o"] == "C" && o["l"] == "r" && o["f"] != json!(0) {
                            r_honest = dec_s::<C>(&o["val"]);
                        }
                    }
                }
            }
        }
        let mut wire = if prog.tamper.is_empty() { bytes.clone() } else { apply_edits_r::<C>(&m, &prog.tamper, r_honest) };
        if prog.bytes {
            // byte-level session: what the encoder produced, what the adversary put on the wire, what the decoder is handed
            if record {
                let (toks, trail) = crate::wire::tokenize::<C>(&bytes);
                events.push(json!({"ev":"encode","role":"P","len":bytes.len(),"toks":toks,"trail":trail,
                                   "again": proof.to_bytes().map(|b| b == bytes).unwrap_or(false)}));
            }
            wire = crate::wire::apply_bedits::<C>(&wire, &prog.btamper);
            if record && wire != bytes {
                let (toks, trail) = crate::wire::tokenize::<C>(&wire);
                events.push(json!({"ev":"wirebytes","role":"A","len":wire.len(),"toks":toks,"trail":trail}));
            }
        }
        out.wire_bytes = Some(wire.clone());
        let decoded = catch_unwind(AssertUnwindSafe(|| R1CSProof::<C::G>::from_bytes(&wire)));
        if prog.bytes && record {
            let mut ev = json!({"ev":"decodeb","role":"V"});
            match &decoded {
                Ok(Ok(pf)) => {
                    ev["res"] = json!("ok");
                    ev["proof"] = proof_json::<C>(&ProofM::from_real(pf));
                    // an encoder output decodes to a proof that re-encodes to the same bytes; for adversarial bytes only the decoded object is
                    // constrained (arkworks accepts e.g. an identity point with stray x bits: it decodes to the identical object)
                    ev["reenc"] = json!(wire != bytes || pf.to_bytes().map(|b| b == wire).unwrap_or(false));
                }
                Ok(Err(e)) => ev["res"] = json!(err_name(e)),
                Err(_) => ev["res"] = json!("panic"),
            }
            events.push(ev);
        }
        match decoded {
            Ok(Ok(pf)) => {
                out.decode = "ok".into();
                if !prog.tamper.is_empty() && record && !prog.bytes {
                    events.push(json!({"ev":"wire","role":"A","proof":proof_json::<C>(&ProofM::from_real(&pf)),
                                       "same": ser_c(&pf) == bytes}));
                }
                let ppc = make_pc::<C>(&prog.p.pc);
                let vo = run_verifier::<C>(prog.vside(), &pf, wide, consts, commits, ppc, record);
                events.extend(vo.events);
                out.vres = vo.res;
                out.vtr_next = vo.next;
            }
            Ok(Err(e)) => {
                out.decode = err_name(&e).to_string();
                if record && !prog.bytes {
                    events.push(json!({"ev":"decode","role":"A","res":out.decode}));
                }
            }
            Err(p) => {
                out.decode = format!("panic: {}", panic_msg(p));
            }
        }
    }
    if record {
        events.push(json!({"ev":"end","role":"","pres":out.pres,"vres":out.vres,"decode":out.decode,
                           "sync": match (&out.ptr_next, &out.vtr_next) { (Some(a), Some(b)) => json!(if a == b {"same"} else {"differ"}), _ => json!("na") }}));
    }
    out.events = events;
    out
}

pub fn field_inv<F: Field>(f: F) -> F {
    f.inverse().unwrap()
}


/// Verify a recorded proof against a recorded statement without running any prover (C18 fixtures).
pub fn verify_only<C: Cv>(side: &Side, proof_bytes: &[u8], commits: Vec<C::G>, consts: HashMap<usize, Fr<C>>, record: bool) -> (String, VerifierOut) {
    let pf = match catch_unwind(AssertUnwindSafe(|| R1CSProof::<C::G>::from_bytes(proof_bytes))) {
        Ok(Ok(p)) => p,
        Ok(Err(e)) => return (err_name(&e).to_string(), VerifierOut { res: String::new(), next: None, events: vec![] }),
        Err(p) => return (format!("panic: {}", panic_msg(p)), VerifierOut { res: String::new(), next: None, events: vec![] }),
    };
    let pc = make_pc::<C>(&side.pc);
    let bp = BulletproofGens::<C::G>::new(side.cap, 1);
    merlin::trace::start();
    ark_bulletproofs::verif_hooks::start_recording_challenges();
    let mut t = Transcript::new(static_label(&side.label));
    for (l, d) in &side.pre {
        t.append_message(static_label(l), d);
    }
    let cx = new_ctx::<C>("V", side, t.verif_tid(), Rc::new(RefCell::new(consts)), Rc::new(RefCell::new(vec![])), None, pc, record);
    *cx.given_commits.borrow_mut() = commits.into();
    let result = {
        let cxr = cx.clone();
        let tr = &mut t;
        let (pcr, bpr, pfr) = (&pc, &bp, &pf);
        catch_unwind(AssertUnwindSafe(move || {
            let cxe = cxr.clone();
            let first: Rc<dyn Fn()> = Rc::new(move || {
                let ops = cxe.tx.borrow_mut().drain();
                if cxe.record {
                    cxe.events.borrow_mut().push(json!({"ev":"verify1","role":"V","cap":cxe.cap.get(),"tx":ops}));
                }
            });
            let verifier = build_verifier::<C>(side, tr, &cxr, first);
            verifier.verify(pfr, pcr, bpr)
        }))
    };
    let ops = cx.tx.borrow_mut().drain();
    merlin::trace::stop();
    let res = match result {
        Ok(Ok(())) => "ok".to_string(),
        Ok(Err(e)) => err_name(&e).to_string(),
        Err(p) => format!("panic: {}", panic_msg(p)),
    };
    let mut events = std::mem::take(&mut *cx.events.borrow_mut());
    events.push(json!({"ev":"verify_only","tx":ops,"res":res}));
    ("ok".to_string(), VerifierOut { res, next: None, events })
}
