//! Toy elliptic curves: prime-order short-Weierstrass curves over tiny fields, so that the
//! *unmodified generic library code* can be run in a group whose arithmetic TLC can redo
//! exactly (scalar field F_P with P*P < 2^31).  Found by exhaustive point counting:
//!
//!   toy7      q = 5      y^2 = x^3 + 2x + 1    #E = 7      generator (0, 1)
//!   toy79     q = 97     y^2 = x^3 + 5         #E = 79     generator (1, 43)
//!   toy31723  q = 32003  y^2 = x^3 + 2x + 17   #E = 31723  generator (0, 13220)
#![allow(non_local_definitions)]

macro_rules! toy_curve {
    ($m:ident, $q:literal, $qg:literal, $p:literal, $pg:literal, $a:literal, $b:literal, $gx:literal, $gy:literal) => {
        pub mod $m {
            use ark_ec::short_weierstrass::{Affine, SWCurveConfig};
            use ark_ec::CurveConfig;
            use ark_ff::fields::{Fp64, MontBackend, MontConfig};
            use ark_ff::MontFp;

            #[derive(MontConfig)]
            #[modulus = $q]
            #[generator = $qg]
            pub struct FqConfig;
            pub type Fq = Fp64<MontBackend<FqConfig, 1>>;

            #[derive(MontConfig)]
            #[modulus = $p]
            #[generator = $pg]
            pub struct FrConfig;
            pub type Fr = Fp64<MontBackend<FrConfig, 1>>;

            #[derive(Copy, Clone, Default, PartialEq, Eq)]
            pub struct Config;

            impl CurveConfig for Config {
                type BaseField = Fq;
                type ScalarField = Fr;
                const COFACTOR: &'static [u64] = &[1];
                const COFACTOR_INV: Fr = MontFp!("1");
            }

            impl SWCurveConfig for Config {
                const COEFF_A: Fq = MontFp!($a);
                const COEFF_B: Fq = MontFp!($b);
                const GENERATOR: Affine<Config> = Affine::new_unchecked(MontFp!($gx), MontFp!($gy));
            }

            pub type G = Affine<Config>;
            pub const ORDER: u64 = {
                // parse the literal at compile time
                let s = $p.as_bytes();
                let mut i = 0;
                let mut v = 0u64;
                while i < s.len() {
                    v = v * 10 + (s[i] - b'0') as u64;
                    i += 1;
                }
                v
            };
        }
    };
}

toy_curve!(toy7, "5", "2", "7", "3", "2", "1", "0", "1");
toy_curve!(toy79, "97", "5", "79", "3", "0", "5", "1", "43");
toy_curve!(toy31723, "32003", "2", "31723", "3", "2", "17", "0", "13220");
