//! Constraint-system programs: the common currency between TLC-generated behaviours,
//! the harness' own random generators and the interpreter that drives the real API.
use crate::cv::*;
use ark_ff::PrimeField;
use serde::{Deserialize, Serialize};

#[derive(Serialize, Deserialize, Clone, Debug, PartialEq)]
#[serde(untagged)]
pub enum Val {
    I(i64),
    /// little-endian hex, reduced modulo the scalar field order
    H(String),
}

impl Val {
    pub fn f<F: PrimeField>(&self) -> F {
        match self {
            Val::I(n) => f_from_i64(*n),
            Val::H(s) => F::from_le_bytes_mod_order(&unhex(s)),
        }
    }
}

#[derive(Serialize, Deserialize, Clone, Debug, PartialEq)]
#[serde(untagged)]
pub enum Coef {
    V(Val),
    /// k0 + k1 * challenge[ch]   (ch indexes the challenges drawn so far by callbacks, 0-based)
    Ch { k0: Val, ch: usize, k1: Val },
}

/// ["L"|"R"|"O"|"V"|"1", index, coefficient]
pub type Term = (String, usize, Coef);

#[derive(Serialize, Deserialize, Clone, Debug, PartialEq)]
#[serde(tag = "op", rename_all = "lowercase")]
pub enum Op {
    Commit {
        v: Val,
        vb: Val,
    },
    Alloc {
        a: Option<Val>,
    },
    Allocmul {
        l: Option<Val>,
        r: Option<Val>,
    },
    Mul {
        l: Vec<Term>,
        r: Vec<Term>,
    },
    /// constrain(lc [+ constant]).  With `fix = Some(id)` the prover side adds the constant
    /// `-eval(lc) + delta` (satisfied by construction, or violated by exactly delta) and remembers
    /// it under `id`; the verifier side adds the remembered constant.
    Con {
        lc: Vec<Term>,
        #[serde(default, skip_serializing_if = "Option::is_none")]
        fix: Option<usize>,
        #[serde(default, skip_serializing_if = "Option::is_none")]
        delta: Option<Val>,
        /// with `fix`: spell the constant as two constant terms, "first" = [-eval(lc), delta], "last" = [delta, -eval(lc)]
        #[serde(default, skip_serializing_if = "Option::is_none")]
        split: Option<String>,
    },
    Append {
        label: String,
        data: Vec<u8>,
    },
    Defer {
        cb: usize,
    },
    /// callbacks only
    Chal {
        label: String,
    },
    /// prover only (hook H1): add delta to the output wire of gate i
    Breakgate {
        i: usize,
        delta: Val,
    },
    Len,
    /// the user's closure returns an error (GadgetError): prove / verify must hand it back
    Fail,
    /// constrain(expr - c) with expr built through the real operator impls (C15)
    Expr {
        e: Expr,
        #[serde(default, skip_serializing_if = "Option::is_none")]
        fix: Option<usize>,
        #[serde(default, skip_serializing_if = "Option::is_none")]
        delta: Option<Val>,
    },
}

/// expression trees over the public operators of linear_combination.rs
#[derive(Serialize, Deserialize, Clone, Debug, PartialEq)]
#[serde(tag = "e", rename_all = "lowercase")]
pub enum Expr {
    /// a variable handle
    Var { k: String, i: usize },
    /// Variable::One()
    One,
    /// a field constant converted with From<F>
    Const { c: Val },
    /// LinearCombination::from(variable)
    FromVar { k: String, i: usize },
    Add { a: Box<Expr>, b: Box<Expr> },
    Sub { a: Box<Expr>, b: Box<Expr> },
    Neg { a: Box<Expr> },
    Mul { a: Box<Expr>, c: Val },
    /// collect from a term list (FromIterator)
    Collect { terms: Vec<(String, usize, Val)> },
    /// LinearCombination::default()
    Zero,
}

#[derive(Serialize, Deserialize, Clone, Debug, Default, PartialEq)]
pub struct PcSpec {
    /// B = b * generator (default: the library's default B)
    #[serde(default, skip_serializing_if = "Option::is_none")]
    pub b: Option<Val>,
    /// B_blinding = bb * default B_blinding
    #[serde(default, skip_serializing_if = "Option::is_none")]
    pub bb: Option<Val>,
}

#[derive(Serialize, Deserialize, Clone, Debug, PartialEq)]
#[serde(tag = "how", rename_all = "lowercase")]
pub enum Edit {
    /// scalar field f += v
    Add { f: String, v: Val },
    /// scalar field f = v
    Set { f: String, v: Val },
    /// point field f += v * generator
    Addpt { f: String, v: Val },
    /// point field f = v * generator (v = 0: identity)
    Setpt { f: String, v: Val },
    Neg { f: String },
    Swap { f: String, g: String },
    /// list edits on "L" / "R": drop last, duplicate last, swap first two, push v*generator
    Droplast { f: String },
    Duplast { f: String },
    Swap01 { f: String },
    Push { f: String, v: Val },
    /// the combiner attack: t_x_blinding += d and e_blinding -= r * d, where r is the weight the verifier derived (on its transcript fork)
    /// when it checked the unaltered proof. A verifier whose r depends on these two scalars - as it must - derives another r and rejects.
    Rshift { d: Val },
    /// flip bit `bit` of the encoding
    Bitflip { bit: usize },
    /// truncate the encoding to `len` bytes
    Truncate { len: usize },
}

/// one step in the life of a generator table (BulletproofGens)
#[derive(Serialize, Deserialize, Clone, Debug, PartialEq)]
#[serde(tag = "g", rename_all = "lowercase")]
pub enum GOp {
    New { cap: usize, parties: usize },
    Inc { cap: usize },
    /// serialise + deserialise
    Ser,
    Clone,
    /// aggregated view G(n, m) / H(n, m); kind = "G" | "H"
    View { kind: String, n: usize, m: usize },
}

#[derive(Serialize, Deserialize, Clone, Debug, Default, PartialEq)]
pub struct Side {
    #[serde(default = "dflt_label")]
    pub label: String,
    /// application appends before Prover::new / Verifier::new
    #[serde(default)]
    pub pre: Vec<(String, Vec<u8>)>,
    #[serde(default)]
    pub ops: Vec<Op>,
    #[serde(default)]
    pub cbs: Vec<Vec<Op>>,
    #[serde(default)]
    pub cap: usize,
    #[serde(default)]
    pub pc: PcSpec,
    /// history of the generator table handed to prove / verify; empty: BulletproofGens::new(cap, 1)
    #[serde(default, skip_serializing_if = "Vec::is_empty")]
    pub gh: Vec<GOp>,
}
fn dflt_label() -> String {
    "verif".to_string()
}

#[derive(Serialize, Deserialize, Clone, Debug, Default, PartialEq)]
pub struct Program {
    #[serde(default)]
    pub id: String,
    pub p: Side,
    /// verifier side; None = same as the prover side
    #[serde(default, skip_serializing_if = "Option::is_none")]
    pub v: Option<Side>,
    #[serde(default)]
    pub seed: u64,
    /// edits applied to the proof in transit
    #[serde(default, skip_serializing_if = "Vec::is_empty")]
    pub tamper: Vec<Edit>,
    /// expectation supplied by the generator (TLC): "ok" | "reject" | error name | "" (none)
    #[serde(default, skip_serializing_if = "String::is_empty")]
    pub expect_p: String,
    #[serde(default, skip_serializing_if = "String::is_empty")]
    pub expect_v: String,
    /// scale every small-integer value by a seeded full-width field element (real curves)
    #[serde(default)]
    pub wide: bool,
    /// handles / errors / gate counts the model expects call by call: {"P":[{ret,err,len}..],"V":[..]}
    #[serde(default, skip_serializing_if = "Option::is_none")]
    pub rets: Option<serde_json::Value>,
    /// the verifier side is not compared (the prover side ended with an error a gadget would propagate)
    #[serde(default)]
    pub vskip: bool,
    /// find out by intervention on the prover's RNG which draw plays which role (C09) and attach the role map to the prove events
    #[serde(default)]
    pub roles: bool,
    /// byte-level session: record the encoding as a token stream, tamper on bytes, record what the decoder is given and returns
    #[serde(default)]
    pub bytes: bool,
    /// byte-level tampering of the encoding (session runs): applied after `tamper`
    #[serde(default, skip_serializing_if = "Vec::is_empty")]
    pub btamper: Vec<BEdit>,
}

#[derive(Serialize, Deserialize, Clone, Debug, PartialEq)]
#[serde(tag = "how", rename_all = "lowercase")]
pub enum BEdit {
    /// keep the first `len` bytes
    Truncate { len: usize },
    /// flip bit `bit`
    Bitflip { bit: usize },
    /// overwrite token number `tok` (0-based, in the layout of the unmodified encoding) with 0xff bytes
    Ffs { tok: usize },
    /// overwrite the L (which = 0) or R (which = 1) count with `val`
    Count { which: usize, val: u64 },
    /// append `n` zero bytes
    Trail { n: usize },
}

impl Program {
    pub fn vside(&self) -> &Side {
        self.v.as_ref().unwrap_or(&self.p)
    }
}
