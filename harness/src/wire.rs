//! The wire: encoding layout, hostile byte strings and proof objects (C04, C08, C11).
use crate::cv::*;
use crate::prog::*;
use crate::run::*;
use ark_bulletproofs::r1cs::*;
use ark_ec::{AffineRepr, CurveGroup};
use ark_ff::{PrimeField, UniformRand, Zero};
use ark_serialize::{CanonicalDeserialize, CanonicalSerialize, Compress, Validate};
use rand::{Rng, SeedableRng};
use rand_chacha::ChaChaRng;
use serde_json::{json, Value};
use std::alloc::{GlobalAlloc, Layout, System};
use std::panic::{catch_unwind, AssertUnwindSafe};
use std::sync::atomic::{AtomicUsize, Ordering};

/// Counting allocator: peak bytes requested while a measurement window is open (C08: memory proportional to input).
pub struct Meter;
static CUR: AtomicUsize = AtomicUsize::new(0);
static PEAK: AtomicUsize = AtomicUsize::new(0);
static BIGGEST: AtomicUsize = AtomicUsize::new(0);
unsafe impl GlobalAlloc for Meter {
    unsafe fn alloc(&self, l: Layout) -> *mut u8 {
        let c = CUR.fetch_add(l.size(), Ordering::Relaxed) + l.size();
        PEAK.fetch_max(c, Ordering::Relaxed);
        BIGGEST.fetch_max(l.size(), Ordering::Relaxed);
        System.alloc(l)
    }
    unsafe fn dealloc(&self, p: *mut u8, l: Layout) {
        CUR.fetch_sub(l.size(), Ordering::Relaxed);
        System.dealloc(p, l)
    }
}
pub fn meter_start() -> usize {
    let c = CUR.load(Ordering::Relaxed);
    PEAK.store(c, Ordering::Relaxed);
    BIGGEST.store(0, Ordering::Relaxed);
    c
}
pub fn meter_peak_since(base: usize) -> (usize, usize) {
    (PEAK.load(Ordering::Relaxed).saturating_sub(base), BIGGEST.load(Ordering::Relaxed))
}

fn panic_msg(e: Box<dyn std::any::Any + Send>) -> String {
    if let Some(s) = e.downcast_ref::<&str>() {
        s.to_string()
    } else if let Some(s) = e.downcast_ref::<String>() {
        s.clone()
    } else {
        "panic".to_string()
    }
}

/// Write-ahead record of the input about to be decoded (VERIF_WAL=<file>): an allocation failure aborts the process without
/// unwinding, and the driver then reports the input found here.
pub fn write_ahead(bytes: &[u8]) {
    if let Ok(p) = std::env::var("VERIF_WAL") {
        let _ = std::fs::write(p, hex(bytes));
    }
}

pub fn decode<C: Cv>(bytes: &[u8]) -> (String, Option<R1CSProof<C::G>>) {
    write_ahead(bytes);
    match catch_unwind(AssertUnwindSafe(|| R1CSProof::<C::G>::from_bytes(bytes))) {
        Ok(Ok(p)) => ("ok".into(), Some(p)),
        Ok(Err(e)) => (err_name(&e).to_string(), None),
        Err(e) => (format!("panic: {}", panic_msg(e)), None),
    }
}

/// Make an honest proof for `prog` and return (program-derived verifier closure inputs, proof bytes).
pub struct Honest<C: Cv> {
    pub prog: Program,
    pub bytes: Vec<u8>,
    pub proof: ProofM<C::G>,
}
pub fn honest<C: Cv>(prog: &Program) -> Option<Honest<C>> {
    let r = run_program::<C>(prog, false);
    if r.pres != "ok" || r.vres != "ok" {
        return None;
    }
    Some(Honest { prog: prog.clone(), bytes: r.proof_bytes.unwrap(), proof: r.proof.unwrap() })
}

/// verify given bytes against the program's statement (re-running the prover side only to rebuild the commitments)
pub fn verify_bytes<C: Cv>(prog: &Program, wire: &[u8]) -> (String, String) {
    let mut p = prog.clone();
    p.tamper = vec![Edit::Truncate { len: usize::MAX }]; // placeholder, replaced below
    p.tamper.clear();
    // run_program applies edits to the honest proof; to inject arbitrary bytes use the dedicated path
    let r = run_with_wire::<C>(&p, wire);
    (r.0, r.1)
}

/// prover as usual, then the given bytes on the wire
pub fn run_with_wire<C: Cv>(prog: &Program, wire: &[u8]) -> (String, String) {
    use std::cell::RefCell;
    use std::collections::HashMap;
    use std::rc::Rc;
    let wide = wide_factor::<C>(prog);
    let consts = Rc::new(RefCell::new(HashMap::new()));
    let commits = Rc::new(RefCell::new(vec![]));
    let po = run_prover::<C>(&prog.p, prog.seed, wide, consts.clone(), commits.clone(), false);
    if po.res != "ok" {
        return ("prover:".to_string() + &po.res, String::new());
    }
    let (d, pf) = decode::<C>(wire);
    match pf {
        None => (d, String::new()),
        Some(pf) => {
            let ppc = make_pc::<C>(&prog.p.pc);
            let vo = run_verifier::<C>(prog.vside(), &pf, wide, consts, commits, ppc, false);
            (d, vo.res)
        }
    }
}

/// The token stream a byte string presents to the decoder, following the layout the bytes themselves announce (their two counts):
/// each token is decoded on its own with arkworks (validated, compressed). {"st":"ok","k":kind,"v":value} | {"st":"bad","k":kind} |
/// {"st":"cut"} (input ends inside the token; nothing follows).  Counts are clamped to 1_000_000 for the model's 32-bit integers.
pub fn tokenize<C: Cv>(bytes: &[u8]) -> (Vec<Value>, usize) {
    use ark_serialize::CanonicalDeserialize;
    let ptl = ser_c(&C::G::generator()).len();
    let scl = ser_c(&Fr::<C>::zero()).len();
    let mut toks = vec![];
    let mut pos = 0usize;
    // phases: 11 pt, 3 sc, len, L*, len, R*, 2 sc
    let mut plan: Vec<&'static str> = vec![];
    plan.extend(std::iter::repeat("pt").take(11));
    plan.extend(std::iter::repeat("sc").take(3));
    plan.push("lenL");
    let mut i = 0usize;
    let mut stage = 0; // 0: head+lenL, 1: L+lenR, 2: R+tail
    loop {
        if i >= plan.len() {
            break;
        }
        let kind = plan[i];
        i += 1;
        let tl = match kind { "pt" => ptl, "sc" => scl, _ => 8 };
        if bytes.len() - pos < tl {
            toks.push(json!({"st": "cut"}));
            return (toks, 0);
        }
        let sl = &bytes[pos..pos + tl];
        pos += tl;
        match kind {
            "pt" => match C::G::deserialize_compressed(sl) {
                Ok(p) => toks.push(json!({"st": "ok", "k": "pt", "v": enc_p::<C>(&p)})),
                Err(_) => toks.push(json!({"st": "bad", "k": "pt"})),
            },
            "sc" => match Fr::<C>::deserialize_compressed(sl) {
                Ok(f) => toks.push(json!({"st": "ok", "k": "sc", "v": enc_s::<C>(&f)})),
                Err(_) => toks.push(json!({"st": "bad", "k": "sc"})),
            },
            _ => {
                let mut b = [0u8; 8];
                b.copy_from_slice(sl);
                let n = u64::from_le_bytes(b);
                let c = n.min(1_000_000) as usize;
                toks.push(json!({"st": "ok", "k": "len", "val": c}));
                // do not materialise absurd plans: the input cannot hold more tokens than it has bytes
                let fit = c.min((bytes.len() - pos) / ptl + 1);
                plan.extend(std::iter::repeat("pt").take(fit));
                if fit < c {
                    plan.push("eof");
                }
                if stage == 0 {
                    if fit == c { plan.push("lenR"); }
                    stage = 1;
                } else {
                    if fit == c { plan.push("sc"); plan.push("sc"); }
                    stage = 2;
                }
            }
        }
        if i < plan.len() && plan[i] == "eof" {
            // announced more elements than the input can hold: the next token is cut (or absent)
            toks.push(json!({"st": "cut"}));
            return (toks, 0);
        }
    }
    (toks, bytes.len() - pos)
}

/// byte-level edits of an encoding (session runs)
pub fn apply_bedits<C: Cv>(enc: &[u8], edits: &[BEdit]) -> Vec<u8> {
    let mut b = enc.to_vec();
    let ptl = ser_c(&C::G::generator()).len();
    let scl = ser_c(&Fr::<C>::zero()).len();
    // layout of the unmodified encoding
    let head = 11 * ptl + 3 * scl;
    let kl = if enc.len() >= head + 8 { u64::from_le_bytes(enc[head..head + 8].try_into().unwrap()) as usize } else { 0 };
    let lay = token_layout::<C>(kl, kl);
    for e in edits {
        match e {
            BEdit::Truncate { len } => b.truncate(*len.min(&b.len())),
            BEdit::Bitflip { bit } => {
                if !b.is_empty() {
                    let k = bit % (b.len() * 8);
                    b[k / 8] ^= 1 << (k % 8);
                }
            }
            BEdit::Ffs { tok } => {
                let t = tok % lay.len();
                let off: usize = lay[..t].iter().map(|x| x.1).sum();
                for k in off..(off + lay[t].1).min(b.len()) {
                    b[k] = 0xff;
                }
            }
            BEdit::Count { which, val } => {
                let off = if *which == 0 { head } else { head + 8 + kl * ptl };
                if off + 8 <= b.len() {
                    b[off..off + 8].copy_from_slice(&val.to_le_bytes());
                }
            }
            BEdit::Trail { n } => b.extend(std::iter::repeat(0u8).take(*n)),
        }
    }
    b
}

fn token_layout<C: Cv>(k_l: usize, k_r: usize) -> Vec<(&'static str, usize)> {
    let pt = ser_c(&C::G::generator()).len();
    let sc = ser_c(&Fr::<C>::zero()).len();
    let mut t = vec![];
    for _ in 0..11 {
        t.push(("pt", pt));
    }
    for _ in 0..3 {
        t.push(("sc", sc));
    }
    t.push(("len", 8));
    for _ in 0..k_l {
        t.push(("pt", pt));
    }
    t.push(("len", 8));
    for _ in 0..k_r {
        t.push(("pt", pt));
    }
    t.push(("sc", sc));
    t.push(("sc", sc));
    t
}

/// an encoding of a point that is on the curve but outside the prime-order subgroup (cofactor curves only)
fn small_order_point<C: Cv>(rng: &mut ChaChaRng) -> Option<C::G> {
    let m = <Fr<C> as PrimeField>::MODULUS;
    // sample curve points without subgroup clearing by decoding random x coordinates unchecked
    let len = ser_c(&C::G::generator()).len();
    for _ in 0..2000 {
        let mut b = vec![0u8; len];
        rng.fill(&mut b[..]);
        b[len - 1] &= 0x3f;
        if let Ok(q) = C::G::deserialize_with_mode(&b[..], Compress::Yes, Validate::No) {
            let t = q.mul_bigint(m);
            if !t.is_zero() {
                let t = t.into_affine();
                // t has small order (it is killed by the cofactor): sanity
                return Some(t);
            }
        }
    }
    None
}

/// C11 / C08 decode tests on one honest proof. `tests` come from the model (Codec): each is
/// {kind: "prefix"|"token"|"trailing"|"lenprefix", ...}; the result rows carry what decode returned.
pub fn codec_tests<C: Cv>(prog: &Program, tests: &[Value], seed: u64) -> Vec<Value> {
    let mut out = vec![];
    let mut rng = ChaChaRng::seed_from_u64(seed);
    let h = match honest::<C>(prog) {
        Some(h) => h,
        None => return vec![json!({"kind":"setup","bad":["honest run failed"]})],
    };
    let (k_l, k_r) = (h.proof.l_vec.len(), h.proof.r_vec.len());
    let layout = token_layout::<C>(k_l, k_r);
    let total: usize = layout.iter().map(|t| t.1).sum();
    let mut offs = vec![];
    let mut o = 0;
    for t in &layout {
        offs.push(o);
        o += t.1;
    }
    let n_gates = prog.p.ops.len();
    out.push(json!({"kind":"size","n_gates":n_gates,"k":k_l,"len":h.bytes.len(),"law":total,"tokens":layout.len(),
                    "ptlen":layout[0].1,"sclen":layout[11].1,
                    "bad": if h.bytes.len()==total && k_l==k_r {json!([])} else {json!([format!("encoded length {} != size law {}", h.bytes.len(), total)])}}));
    // round trip: deterministic encoding, re-encode equality, same verdict
    {
        let (d, pf) = decode::<C>(&h.bytes);
        let mut bad = vec![];
        match pf {
            Some(pf) => {
                if ser_c(&pf) != h.bytes || pf.to_bytes().map(|b| b != h.bytes).unwrap_or(true) {
                    bad.push("decode(encode(p)) does not re-encode to the same bytes".to_string());
                }
                let again = run_program::<C>(prog, false);
                if again.proof_bytes.as_deref() != Some(&h.bytes[..]) {
                    bad.push("encoding is not deterministic (same program, same seed)".to_string());
                }
                let (_, v) = run_with_wire::<C>(prog, &h.bytes);
                if v != "ok" {
                    bad.push(format!("round-tripped proof verdict {}", v));
                }
            }
            None => bad.push(format!("valid encoding rejected: {}", d)),
        }
        out.push(json!({"kind":"roundtrip","bad":bad}));
    }
    let small = small_order_point::<C>(&mut rng);
    for t in tests {
        let kind = t["kind"].as_str().unwrap();
        let mut bytes = h.bytes.clone();
        let mut note = String::new();
        match kind {
            "prefix" => {
                let c = t["cut"].as_u64().unwrap() as usize;
                if c >= bytes.len() {
                    continue;
                }
                bytes.truncate(c);
            }
            "trailing" => {
                bytes.extend_from_slice(&[0xab; 5]);
            }
            "token" => {
                let i = t["tok"].as_u64().unwrap() as usize;
                if i >= layout.len() {
                    continue;
                }
                let (tk, len) = layout[i];
                let cls = t["cls"].as_str().unwrap();
                let sl = &mut bytes[offs[i]..offs[i] + len];
                match (tk, cls) {
                    ("sc", "ge-modulus") => {
                        for b in sl.iter_mut() {
                            *b = 0xff
                        }
                    }
                    ("sc", "modulus") => {
                        // exactly the modulus: the smallest non-canonical value
                        let m = <Fr<C> as PrimeField>::MODULUS;
                        use ark_ff::BigInteger;
                        let mb = m.to_bytes_le();
                        for (j, b) in sl.iter_mut().enumerate() {
                            *b = *mb.get(j).unwrap_or(&0)
                        }
                    }
                    ("pt", "off-curve") => {
                        // walk x until the decoder must reject it (not a curve point / not in the subgroup)
                        let orig = sl.to_vec();
                        let mut found = false;
                        for d in 1..200u16 {
                            let mut cand = orig.clone();
                            cand[0] = cand[0].wrapping_add(d as u8);
                            cand[1] = cand[1].wrapping_add((d >> 8) as u8);
                            let unchecked = C::G::deserialize_with_mode(&cand[..], Compress::Yes, Validate::No);
                            if unchecked.is_err() {
                                sl.copy_from_slice(&cand);
                                found = true;
                                break;
                            }
                        }
                        if !found {
                            continue;
                        }
                    }
                    ("pt", "x-ge-modulus") => {
                        let keep = sl[len - 1] & 0xc0;
                        for b in sl.iter_mut() {
                            *b = 0xff
                        }
                        if !C::TOY {
                            sl[len - 1] = keep | 0x3f;
                        }
                        // only meaningful if the unchecked decoder rejects it too (x not canonical)
                        if C::G::deserialize_with_mode(&sl[..], Compress::Yes, Validate::No).is_ok() {
                            continue;
                        }
                    }
                    ("pt", "wrong-subgroup") => match &small {
                        Some(tp) => {
                            let p = C::G::deserialize_with_mode(&sl[..], Compress::Yes, Validate::No).unwrap();
                            let q = (p.into_group() + tp.into_group()).into_affine();
                            sl.copy_from_slice(&ser_c(&q));
                            note = "P + small-order point".into();
                        }
                        None => continue,
                    },
                    _ => continue,
                }
            }
            "token2" => {
                let (i, j) = (t["tok"].as_u64().unwrap() as usize, t["tok2"].as_u64().unwrap() as usize);
                if i >= layout.len() || j >= layout.len() || layout[i].0 != "pt" || layout[j].0 != "pt" {
                    continue;
                }
                match &small {
                    Some(tp) => {
                        let len = layout[i].1;
                        let p1 = C::G::deserialize_with_mode(&bytes[offs[i]..offs[i] + len], Compress::Yes, Validate::No).unwrap();
                        let p2 = C::G::deserialize_with_mode(&bytes[offs[j]..offs[j] + len], Compress::Yes, Validate::No).unwrap();
                        let q1 = (p1.into_group() + tp.into_group()).into_affine();
                        let q2 = (p2.into_group() - tp.into_group()).into_affine();
                        bytes[offs[i]..offs[i] + len].copy_from_slice(&ser_c(&q1));
                        bytes[offs[j]..offs[j] + len].copy_from_slice(&ser_c(&q2));
                        note = "P1 + T, P2 - T for a small-order point T".into();
                    }
                    None => continue,
                }
            }
            "lenprefix" => {
                // a huge count in a length prefix must not make the decoder allocate in proportion to it
                let which = t["which"].as_u64().unwrap() as usize; // 0 = L, 1 = R
                let idx = layout.iter().enumerate().filter(|(_, x)| x.0 == "len").map(|(i, _)| i).nth(which).unwrap();
                let v: u64 = match t["val"].as_str().unwrap() {
                    "max" => u64::MAX,
                    "2^40" => 1 << 40,
                    "2^32" => 1 << 32,
                    "k+1" => (if which == 0 { k_l } else { k_r }) as u64 + 1,
                    _ => 1 << 20,
                };
                bytes[offs[idx]..offs[idx] + 8].copy_from_slice(&v.to_le_bytes());
            }
            _ => continue,
        }
        let base = meter_start();
        let (d, pf) = decode::<C>(&bytes);
        let (peak, biggest) = meter_peak_since(base);
        let same = pf.as_ref().map(|p| ser_c(p) == h.bytes);
        let verdict = if pf.is_some() && t["verify"].as_bool().unwrap_or(false) { run_with_wire::<C>(prog, &bytes).1 } else { String::new() };
        let mut bad = vec![];
        let expect = t["expect"].as_str().unwrap_or("");
        if d.starts_with("panic") {
            bad.push(format!("decode panics: {}", d));
        } else if expect == "FormatError" && d != "FormatError" {
            bad.push(format!("expected FormatError, decode returned {}", d));
        } else if expect == "same" && same != Some(true) {
            bad.push(format!("expected the identical proof object, decode returned {} (same = {:?})", d, same));
        }
        // memory: proportional to the input, whatever a length prefix claims
        let bound = 64 * bytes.len() + (1 << 16);
        if peak > bound {
            bad.push(format!("decode allocated {} bytes (largest request {}) for a {}-byte input", peak, biggest, bytes.len()));
        }
        if verdict.starts_with("panic") {
            bad.push(format!("verify panics: {}", verdict));
        }
        let mut row = t.clone();
        row["decode"] = json!(d);
        row["same"] = json!(same);
        row["peak"] = json!(peak);
        row["verdict"] = json!(verdict);
        row["note"] = json!(note);
        row["bad"] = json!(bad);
        out.push(row);
    }
    out
}

/// C04: every single-bit flip of an honest encoding: decode error, or the identical object, or rejected by verify.
pub fn bitflip_sweep<C: Cv>(prog: &Program, stride: usize) -> Value {
    let h = match honest::<C>(prog) {
        Some(h) => h,
        None => return json!({"bad":["honest run failed"],"bits":0}),
    };
    let nbits = h.bytes.len() * 8;
    let (mut dec_err, mut same, mut rejected, mut accepted_diff, mut panics) = (0, 0, 0, 0, 0);
    let mut bad = vec![];
    let mut same_bits = vec![];
    let mut bit = 0;
    while bit < nbits {
        let mut b = h.bytes.clone();
        b[bit / 8] ^= 1 << (bit % 8);
        let (d, pf) = decode::<C>(&b);
        if d.starts_with("panic") {
            panics += 1;
            bad.push(json!({"bit": bit, "what": format!("decode {}", d)}));
        } else if let Some(pf) = pf {
            if ser_c(&pf) == h.bytes {
                same += 1;
                if same_bits.len() < 2000 {
                    same_bits.push(bit);
                }
            } else {
                let (_, v) = run_with_wire::<C>(prog, &b);
                if v == "ok" {
                    accepted_diff += 1;
                    bad.push(json!({"bit": bit, "what": "a different proof object is accepted"}));
                } else if v.starts_with("panic") {
                    panics += 1;
                    bad.push(json!({"bit": bit, "what": format!("verify {}", v), "site": "verify-panic"}));
                } else {
                    rejected += 1;
                }
            }
        } else {
            dec_err += 1;
        }
        bit += stride;
    }
    bad.truncate(20);
    json!({"curve": C::NAME, "bits": nbits, "stride": stride, "decode_error": dec_err, "same_object": same, "rejected": rejected,
           "accepted_different": accepted_diff, "panics": panics, "bad": bad, "same_bits_sample": same_bits.iter().take(12).collect::<Vec<_>>(),
           "len": h.bytes.len()})
}

/// C08: seeded random and guided byte mutations of an honest encoding; nothing may panic, memory stays proportional.
pub fn mutate_sweep<C: Cv>(prog: &Program, n: usize, seed: u64) -> Value {
    let h = match honest::<C>(prog) {
        Some(h) => h,
        None => return json!({"bad":["honest run failed"],"n":0}),
    };
    let mut rng = ChaChaRng::seed_from_u64(seed);
    let mut bad = vec![];
    let (mut decoded, mut accepted) = (0usize, 0usize);
    let layout = token_layout::<C>(h.proof.l_vec.len(), h.proof.r_vec.len());
    let mut offs = vec![];
    let mut o = 0;
    for t in &layout {
        offs.push(o);
        o += t.1;
    }
    for i in 0..n {
        let mut b = h.bytes.clone();
        match rng.gen_range(0..8) {
            0 => {
                let k = rng.gen_range(0..b.len());
                b[k] = rng.gen();
            }
            1 => {
                let c = rng.gen_range(0..b.len());
                b.truncate(c);
            }
            2 => {
                for _ in 0..rng.gen_range(1..6) {
                    let k = rng.gen_range(0..b.len());
                    b[k] ^= 1 << rng.gen_range(0..8);
                }
            }
            3 => {
                // overwrite a whole token with another token of the same kind
                let i = rng.gen_range(0..layout.len());
                let js: Vec<usize> = (0..layout.len()).filter(|j| layout[*j].0 == layout[i].0).collect();
                let j = js[rng.gen_range(0..js.len())];
                let src = b[offs[j]..offs[j] + layout[j].1].to_vec();
                b[offs[i]..offs[i] + layout[i].1].copy_from_slice(&src);
            }
            4 => {
                // length prefixes: small and huge counts
                let lens: Vec<usize> = (0..layout.len()).filter(|j| layout[*j].0 == "len").collect();
                let i = lens[rng.gen_range(0..2)];
                let v: u64 = [0u64, 1, 2, 3, 7, 31, 32, 33, 64, 1 << 20, 1 << 32, u64::MAX][rng.gen_range(0..12)];
                b[offs[i]..offs[i] + 8].copy_from_slice(&v.to_le_bytes());
            }
            5 => {
                // identity encodings / zero scalars
                let i = rng.gen_range(0..layout.len());
                let (tk, len) = layout[i];
                if tk == "pt" {
                    let z = ser_c(&C::G::zero());
                    b[offs[i]..offs[i] + len].copy_from_slice(&z);
                } else if tk == "sc" {
                    for x in b[offs[i]..offs[i] + len].iter_mut() {
                        *x = 0
                    }
                }
            }
            6 => {
                let extra: Vec<u8> = (0..rng.gen_range(1..40)).map(|_| rng.gen()).collect();
                let at = rng.gen_range(0..=b.len());
                let tail = b.split_off(at);
                b.extend(extra);
                b.extend(tail);
            }
            _ => {
                b = (0..rng.gen_range(0..700)).map(|_| rng.gen()).collect();
            }
        }
        let base = meter_start();
        let (d, pf) = decode::<C>(&b);
        let (peak, _) = meter_peak_since(base);
        if d.starts_with("panic") {
            bad.push(json!({"i": i, "what": format!("decode {}", d), "bytes": hex(&b)}));
        }
        if peak > 64 * b.len() + (1 << 16) {
            bad.push(json!({"i": i, "what": format!("decode allocated {} bytes for {} input bytes", peak, b.len()), "bytes": hex(&b)}));
        }
        if pf.is_some() {
            decoded += 1;
            let (_, v) = run_with_wire::<C>(prog, &b);
            if v.starts_with("panic") {
                bad.push(json!({"i": i, "what": format!("verify {}", v), "bytes": hex(&b), "site": "verify-panic"}));
            }
            if v == "ok" {
                accepted += 1;
            }
        }
    }
    bad.truncate(10);
    json!({"curve": C::NAME, "n": n, "decoded": decoded, "accepted": accepted, "bad": bad})
}

#[allow(dead_code)]
fn _unused<C: Cv>() {
    let _ = Fr::<C>::rand(&mut ChaChaRng::seed_from_u64(0));
}

// ------------------------------------------------------------------------------------------------
// C07 batch verification
// ------------------------------------------------------------------------------------------------

/// job: {"members":[Program (with optional tamper)...], "seed": n, "cap": optional capacity of the shared generators}
/// Each member is proved honestly from its program, its proof edited by its `tamper` list, verified individually,
/// and then all are verified in one batch. Returns (trace events, result).
pub fn batch_run<C: Cv>(job: &Value, record: bool) -> (Vec<Value>, Value) {
    use ark_bulletproofs::{BulletproofGens, PedersenGens};
    use merlin::Transcript;
    use std::cell::RefCell;
    use std::collections::HashMap;
    use std::rc::Rc;
    let members: Vec<Program> = job["members"].as_array().unwrap().iter().map(|m| serde_json::from_value(m.clone()).expect("member program")).collect();
    let seed = job["seed"].as_u64().unwrap_or(1);
    let mut events = vec![];
    if record {
        events.push(json!({"ev":"batch_begin","role":""}));
    }
    struct M<C: Cv> {
        prog: Program,
        proof: R1CSProof<C::G>,
        consts: Rc<RefCell<HashMap<usize, Fr<C>>>>,
        commits: Rc<RefCell<Vec<C::G>>>,
        wide: Option<Fr<C>>,
    }
    let mut ms: Vec<M<C>> = vec![];
    let mut individual = vec![];
    let mut bad: Vec<String> = vec![];
    for prog in &members {
        let wide = wide_factor::<C>(prog);
        let consts = Rc::new(RefCell::new(HashMap::new()));
        let commits = Rc::new(RefCell::new(vec![]));
        if record {
            events.push(setup_event::<C>(prog));
        }
        let po = run_prover::<C>(&prog.p, prog.seed, wide, consts.clone(), commits.clone(), record);
        events.extend(po.events);
        let proof = match po.proof {
            Some(p) => p,
            None => {
                bad.push(format!("member {}: prover failed: {}", prog.id, po.res));
                continue;
            }
        };
        let m = ProofM::from_real(&proof);
        let wire = if prog.tamper.is_empty() { ser_c(&proof) } else { apply_edits::<C>(&m, &prog.tamper) };
        let pf = match R1CSProof::<C::G>::deserialize_with_mode(&wire[..], Compress::Yes, Validate::No) {
            Ok(p) => p,
            Err(_) => {
                bad.push(format!("member {}: edited proof does not parse", prog.id));
                continue;
            }
        };
        if record && !prog.tamper.is_empty() {
            events.push(json!({"ev":"wire","role":"A","proof":proof_json::<C>(&ProofM::from_real(&pf)),"same": wire == ser_c(&proof)}));
        }
        let ppc = make_pc::<C>(&prog.p.pc);
        let vo = run_verifier::<C>(prog.vside(), &pf, wide, consts.clone(), commits.clone(), ppc, record);
        events.extend(vo.events);
        if record {
            events.push(json!({"ev":"end","role":"","pres":"ok","vres":vo.res,"decode":"ok","sync":"skip"}));
        }
        individual.push(vo.res.clone());
        ms.push(M { prog: prog.clone(), proof: pf, consts, commits, wide });
    }
    // the batch: shared generators of sufficient (or the requested) capacity
    let need = ms.iter().map(|m| m.prog.vside().cap).max().unwrap_or(1);
    let cap = job["cap"].as_u64().map(|c| c as usize).unwrap_or(need);
    let pc = PedersenGens::<C::G>::default();
    let bp = BulletproofGens::<C::G>::new(cap, 1);
    let mut transcripts: Vec<Transcript> = ms.iter().map(|m| {
        let side = m.prog.vside();
        let mut t = Transcript::new(static_label(&side.label));
        for (l, d) in &side.pre {
            t.append_message(static_label(l), d);
        }
        t
    }).collect();
    let mut rng = ExtRng::new(seed);
    let res = {
        let msr = &ms;
        let (pcr, bpr) = (&pc, &bp);
        let rngr = &mut rng;
        let ts = &mut transcripts;
        catch_unwind(AssertUnwindSafe(move || {
            let mut instances = vec![];
            for (m, t) in msr.iter().zip(ts.iter_mut()) {
                let cx = new_ctx_pub::<C>("V", m.prog.vside(), t.verif_tid(), m.consts.clone(), m.commits.clone(), m.wide, make_pc::<C>(&m.prog.p.pc));
                let first: Rc<dyn Fn()> = Rc::new(|| {});
                let v = build_verifier::<C>(m.prog.vside(), t, &cx, first);
                instances.push((v, &m.proof));
            }
            batch_verify(rngr, instances, pcr, bpr)
        }))
    };
    let bres = match res {
        Ok(Ok(())) => "ok".to_string(),
        Ok(Err(e)) => err_name(&e).to_string(),
        Err(e) => format!("panic: {}", panic_msg(e)),
    };
    // the weights the batch drew: one scalar per instance from the caller's RNG, in order
    let mut replay = ExtRng::new(seed);
    let alphas: Vec<Fr<C>> = (0..ms.len()).map(|_| Fr::<C>::rand(&mut replay)).collect();
    if record {
        events.push(json!({"ev":"batch","role":"","alphas":alphas.iter().map(enc_s::<C>).collect::<Vec<_>>(),"res":bres,"n":ms.len(),
                           "rng_bytes": rng.taken, "rng_bytes_expected": replay.taken, "cap": cap, "job": job["id"]}));
    }
    let all_ok = individual.iter().all(|r| r == "ok");
    if bres.starts_with("panic") {
        bad.push(format!("batch_verify {}", bres));
    } else if !C::TOY && job["cap"].is_null() {
        if all_ok && bres != "ok" {
            bad.push(format!("all {} members verify individually, the batch returned {}", ms.len(), bres));
        }
        if !all_ok && bres == "ok" {
            bad.push(format!("batch accepted although individual verdicts are {:?}", individual));
        }
    }
    if individual.iter().any(|r| r.starts_with("panic")) {
        bad.push(format!("individual verify panics: {:?}", individual));
    }
    (events, json!({"id": job["id"], "curve": C::NAME, "individual": individual, "batch": bres, "bad": bad, "n": ms.len()}))
}


// ------------------------------------------------------------------------------------------------
// C18 fixtures
// ------------------------------------------------------------------------------------------------

/// Record a fixture: run the program (prover and verifier) and keep everything a later revision needs to re-verify it.
pub fn make_fixture<C: Cv>(prog: &Program) -> Value {
    use std::cell::RefCell;
    use std::collections::HashMap;
    use std::rc::Rc;
    let consts = Rc::new(RefCell::new(HashMap::new()));
    let commits = Rc::new(RefCell::new(vec![]));
    let po = run_prover::<C>(&prog.p, prog.seed, None, consts.clone(), commits.clone(), false);
    let proof = match &po.proof {
        Some(p) => p.to_bytes().unwrap(),
        None => return json!({"id": prog.id, "curve": C::NAME, "error": po.res}),
    };
    let r = run_program::<C>(prog, false);
    // the commitments the verifier of this fixture is handed: those of its own statement, under the prover's bases
    let ppc = make_pc::<C>(&prog.p.pc);
    let cm: Vec<String> = prog.vside().ops.iter().filter_map(|o| match o {
        Op::Commit { v, vb } => Some(hex(&ser_c(&ppc.commit(v.f::<Fr<C>>(), vb.f::<Fr<C>>())))),
        _ => None,
    }).collect();
    let _ = &commits;
    let cs: Vec<(usize, String)> = consts.borrow().iter().map(|(k, v)| (*k, hex(&ser_c(v)))).collect();
    json!({"id": prog.id, "curve": C::NAME, "program": serde_json::to_value(prog).unwrap(), "proof": hex(&proof), "commitments": cm,
           "consts": cs, "pres": r.pres, "vres": r.vres, "len": proof.len(),
           "ptlen": ser_c(&C::G::generator()).len(), "sclen": ser_c(&Fr::<C>::zero()).len()})
}

/// Verify a recorded fixture with the current code: the recorded statement (or a recorded wrong statement) against the recorded proof.
pub fn check_fixture<C: Cv>(fx: &Value) -> Value {
    use std::collections::HashMap;
    let prog: Program = serde_json::from_value(fx["program"].clone()).expect("fixture program");
    let proof = unhex(fx["proof"].as_str().unwrap());
    let commits: Vec<C::G> = fx["commitments"].as_array().unwrap().iter()
        .map(|h| C::G::deserialize_with_mode(&unhex(h.as_str().unwrap())[..], Compress::Yes, Validate::No).expect("fixture commitment")).collect();
    let mut consts: HashMap<usize, Fr<C>> = HashMap::new();
    for kv in fx["consts"].as_array().unwrap() {
        consts.insert(kv[0].as_u64().unwrap() as usize, Fr::<C>::deserialize_compressed(&unhex(kv[1].as_str().unwrap())[..]).expect("fixture constant"));
    }
    let side = prog.vside().clone();
    // the verifier takes as many commitments as its own statement commits; hand it the recorded ones in order
    let (dec, vo) = verify_only::<C>(&side, &proof, commits, consts, false);
    // encoding layout: the recorded bytes decode and re-encode to themselves, with the recorded token sizes
    let reencode = match R1CSProof::<C::G>::from_bytes(&proof) {
        Ok(p) => p.to_bytes().map(|b| b == proof).unwrap_or(false),
        Err(_) => false,
    };
    let sizes_ok = fx["ptlen"].as_u64() == Some(ser_c(&C::G::generator()).len() as u64) && fx["sclen"].as_u64() == Some(ser_c(&Fr::<C>::zero()).len() as u64);
    // a recorded proof with the identity in a mandatory position (an honest T_k on a 7-element group): its recorded rejection is not a statement
    // about a wrong statement
    let identity_in_proof = match ProofM::<C::G>::deserialize_with_mode(&proof[..], Compress::Yes, Validate::No) {
        Ok(m) => [0usize, 1, 2, 6, 7, 8, 9, 10].iter().any(|i| m.pts[*i].is_zero()) || m.l_vec.iter().any(|p| p.is_zero()) || m.r_vec.iter().any(|p| p.is_zero()),
        Err(_) => false,
    };
    json!({"id": fx["id"], "curve": C::NAME, "decode": dec, "vres": vo.res, "expect": fx["vres"], "reencode": reencode, "sizes_ok": sizes_ok,
           "identity_in_proof": identity_in_proof})
}
