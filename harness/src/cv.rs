//! Curves the harness runs the library on, and value encodings for traces.
use ark_ec::{AffineRepr, CurveGroup};
use ark_ff::{BigInteger, PrimeField, Zero};
use ark_serialize::{CanonicalDeserialize, CanonicalSerialize};
use serde_json::{json, Value};
use std::collections::HashMap;
use std::sync::OnceLock;

pub trait Cv: 'static + Sized {
    type G: AffineRepr;
    const NAME: &'static str;
    const TOY: bool;
    /// group order for toy curves (0 for real curves)
    const ORDER: u64;
    /// discrete log w.r.t. the curve generator (toy curves only)
    fn dlog(p: &Self::G) -> Option<u64>;
}

pub type Fr<C> = <<C as Cv>::G as AffineRepr>::ScalarField;

pub fn ser_c<T: CanonicalSerialize>(t: &T) -> Vec<u8> {
    let mut v = Vec::new();
    t.serialize_compressed(&mut v).unwrap();
    v
}
pub fn ser_u<T: CanonicalSerialize>(t: &T) -> Vec<u8> {
    let mut v = Vec::new();
    t.serialize_uncompressed(&mut v).unwrap();
    v
}
pub fn hex(b: &[u8]) -> String {
    b.iter().map(|x| format!("{:02x}", x)).collect()
}
pub fn unhex(s: &str) -> Vec<u8> {
    (0..s.len() / 2).map(|i| u8::from_str_radix(&s[2 * i..2 * i + 2], 16).unwrap()).collect()
}

pub fn f_from_i64<F: PrimeField>(n: i64) -> F {
    if n >= 0 {
        F::from(n as u64)
    } else {
        -F::from(n.unsigned_abs())
    }
}
pub fn f_to_u64<F: PrimeField>(f: &F) -> u64 {
    let b = f.into_bigint();
    b.as_ref()[0]
}

/// scalar as trace value: small integer on toy curves, hex (LE, compressed) otherwise
pub fn enc_s<C: Cv>(f: &Fr<C>) -> Value {
    if C::TOY {
        json!(f_to_u64(f))
    } else {
        json!(hex(&ser_c(f)))
    }
}
/// point as trace value: discrete log on toy curves, hex (compressed) otherwise
pub fn enc_p<C: Cv>(p: &C::G) -> Value {
    if C::TOY {
        json!(C::dlog(p).expect("toy point outside the group"))
    } else {
        json!(hex(&ser_c(p)))
    }
}
pub fn gen_mul<C: Cv>(k: &Fr<C>) -> C::G {
    (C::G::generator().into_group() * k).into_affine()
}

macro_rules! toy_cv {
    ($t:ident, $m:ident, $name:literal) => {
        pub struct $t;
        impl Cv for $t {
            type G = crate::toy::$m::G;
            const NAME: &'static str = $name;
            const TOY: bool = true;
            const ORDER: u64 = crate::toy::$m::ORDER;
            fn dlog(p: &Self::G) -> Option<u64> {
                static TABLE: OnceLock<HashMap<Vec<u8>, u64>> = OnceLock::new();
                let t = TABLE.get_or_init(|| {
                    let g = <Self::G as AffineRepr>::generator().into_group();
                    let mut acc = <Self::G as AffineRepr>::Group::zero();
                    let mut m = HashMap::new();
                    for d in 0..Self::ORDER {
                        m.insert(ser_u(&acc.into_affine()), d);
                        acc += g;
                    }
                    assert!(acc.is_zero(), "toy generator order mismatch");
                    assert_eq!(m.len() as u64, Self::ORDER);
                    m
                });
                t.get(&ser_u(p)).copied()
            }
        }
    };
}
toy_cv!(Toy7, toy7, "toy7");
toy_cv!(Toy79, toy79, "toy79");
toy_cv!(Toy31723, toy31723, "toy31723");

macro_rules! real_cv {
    ($t:ident, $g:ty, $name:literal) => {
        pub struct $t;
        impl Cv for $t {
            type G = $g;
            const NAME: &'static str = $name;
            const TOY: bool = false;
            const ORDER: u64 = 0;
            fn dlog(_: &Self::G) -> Option<u64> {
                None
            }
        }
    };
}
real_cv!(Secq, ark_secq256k1::Affine, "secq256k1");
real_cv!(Zorro, ark_bulletproofs::curve::zorro::G1Affine, "zorro");
real_cv!(C25519, ark_curve25519::EdwardsAffine, "curve25519");

/// Parse a transcript payload in every way that fits (the specification decides which it expects).
pub fn classify_payload<C: Cv>(msg: &[u8]) -> Value {
    let mut o = serde_json::Map::new();
    o.insert("len".into(), json!(msg.len()));
    if C::TOY {
        if let Ok(p) = C::G::deserialize_uncompressed(msg) {
            if ser_u(&p) == msg {
                if let Some(d) = C::dlog(&p) {
                    o.insert("pt".into(), json!(d));
                }
            }
        }
        if let Ok(s) = Fr::<C>::deserialize_uncompressed(msg) {
            if ser_u(&s) == msg {
                o.insert("sc".into(), json!(f_to_u64(&s)));
            }
        }
        if msg.len() <= 64 {
            o.insert("raw".into(), json!(msg));
        }
    } else {
        o.insert("hex".into(), json!(hex(msg)));
    }
    if msg.len() == 8 {
        let x = u64::from_le_bytes(msg.try_into().unwrap());
        if x < (1 << 31) {
            o.insert("u64".into(), json!(x));
        }
    }
    if !msg.is_empty() && msg.len() <= 64 && msg.iter().all(|b| (0x20..0x7f).contains(b)) {
        o.insert("str".into(), json!(String::from_utf8(msg.to_vec()).unwrap()));
    }
    Value::Object(o)
}

pub fn label_str(l: &[u8]) -> String {
    String::from_utf8_lossy(l).to_string()
}

pub fn bigint_hex<F: PrimeField>(f: &F) -> String {
    hex(&f.into_bigint().to_bytes_le())
}
