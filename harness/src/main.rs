mod aux;
mod cv;
mod gen;
mod prog;
mod run;
mod toy;
mod wire;

#[global_allocator]
static ALLOC: wire::Meter = wire::Meter;

use cv::*;
use prog::*;
use serde_json::Value;
use std::io::{BufRead, Write};

fn with_curve<R>(name: &str, f: impl FnOnce(&dyn CurveDyn) -> R) -> R {
    match name {
        "toy7" => f(&Dyn::<Toy7>(Default::default())),
        "toy79" => f(&Dyn::<Toy79>(Default::default())),
        "toy31723" => f(&Dyn::<Toy31723>(Default::default())),
        "secq256k1" => f(&Dyn::<Secq>(Default::default())),
        "zorro" => f(&Dyn::<Zorro>(Default::default())),
        "curve25519" => f(&Dyn::<C25519>(Default::default())),
        _ => panic!("unknown curve {}", name),
    }
}

/// object-safe facade over the curve-generic entry points
trait CurveDyn {
    fn record_programs(&self, progs: &[Program], out: &mut dyn Write) -> Vec<Value>;
    fn replay_programs(&self, progs: &[Program]) -> Vec<Value>;
    fn pedersen(&self, patterns: &[Value], seed: u64) -> Vec<Value>;
    fn ipp(&self, insts: &[Value], seed: u64) -> (Vec<Value>, Vec<Value>);
    fn gens(&self, hists: &[Value]) -> Vec<Value>;
    fn gens_facts(&self, cap: usize, parties: usize) -> Value;
    fn gens_life(&self, seed: u64, n: usize, maxcap: usize, maxparties: usize, maxops: usize) -> Vec<Value>;
    fn codec(&self, jobs: &[Value], seed: u64) -> Vec<Value>;
    fn bitflip(&self, progs: &[Program], stride: usize) -> Vec<Value>;
    fn mutate(&self, progs: &[Program], n: usize, seed: u64) -> Vec<Value>;
    fn batch(&self, jobs: &[Value], record: bool) -> (Vec<Value>, Vec<Value>);
    fn mkfixtures(&self, progs: &[Program]) -> Vec<Value>;
    fn fixtures(&self, fxs: &[Value]) -> Vec<Value>;
}
struct Dyn<C: Cv>(std::marker::PhantomData<C>);
impl<C: Cv> CurveDyn for Dyn<C> {
    fn record_programs(&self, progs: &[Program], out: &mut dyn Write) -> Vec<Value> {
        let mut sums = vec![];
        for p in progs {
            let r = run::run_program::<C>(p, true);
            for e in &r.events {
                writeln!(out, "{}", serde_json::to_string(e).unwrap()).unwrap();
            }
            sums.push(serde_json::json!({"id": p.id, "pres": r.pres, "vres": r.vres, "decode": r.decode}));
        }
        sums
    }
    fn replay_programs(&self, progs: &[Program]) -> Vec<Value> {
        let mut out = vec![];
        for p in progs {
            let r = run::run_program::<C>(p, true);
            let same_wire = r.wire_bytes.is_some() && r.wire_bytes == r.proof_bytes;
            let mut pp = p.clone();
            if pp.expect_v == "reject_or_same" {
                // the identical object: nothing for integrity to say (whether the honest proof is accepted is C01's business)
                pp.expect_v = if same_wire { "".into() } else { "reject".into() };
            }
            let p = &pp;
            let bad = check_expectations(p, &r.events, &r.pres, &r.vres, &r.decode);
            // the observable call history of both roles, in execution order: [role, phase, op, returned handle(s), error, gate count]
            let calls: Vec<Value> = r.events.iter().filter(|e| e["ev"] == "call")
                .map(|e| {
                    let ret = if e["role"] == "P" && e["op"] == "commit" { e["ret"][1].clone() } else { e["ret"].clone() };
                    serde_json::json!([e["role"], e["ph"], e["op"], ret, e["err"], e["mlen"]])
                }).collect();
            let gates = r.events.iter().filter(|e| e["ev"] == "gates").last().map(|e| e["vals"].clone());
            out.push(serde_json::json!({"id": p.id, "curve": C::NAME, "pres": r.pres, "vres": r.vres, "decode": r.decode,
                                        "bad": bad, "proof": r.proof_bytes.as_ref().map(|b| cv::hex(b)), "calls": calls, "gates": gates}));
        }
        out
    }
    fn pedersen(&self, patterns: &[Value], seed: u64) -> Vec<Value> {
        let mut out = vec![];
        aux::pedersen::<C>(patterns, seed, &mut out);
        out
    }
    fn ipp(&self, insts: &[Value], seed: u64) -> (Vec<Value>, Vec<Value>) {
        let mut events = vec![];
        let mut results = vec![];
        for (i, inst) in insts.iter().enumerate() {
            let n0 = events.len();
            let bad = aux::ipp_instance::<C>(inst, seed.wrapping_mul(1_000_003).wrapping_add(i as u64), &mut events);
            results.push(serde_json::json!({"i": i, "inst": inst, "curve": C::NAME, "bad": bad, "events": events.len() - n0}));
        }
        (events, results)
    }
    fn gens(&self, hists: &[Value]) -> Vec<Value> {
        hists.iter().map(|h| aux::gens_history::<C>(h)).collect()
    }
    fn gens_facts(&self, cap: usize, parties: usize) -> Value {
        aux::gens_facts::<C>(cap, parties)
    }
    fn gens_life(&self, seed: u64, n: usize, maxcap: usize, maxparties: usize, maxops: usize) -> Vec<Value> {
        use rand::SeedableRng;
        let mut r = rand_chacha::ChaChaRng::seed_from_u64(seed);
        let mut events = vec![];
        for i in 0..n {
            // two tables per run (the model's two roles), each with its own history; no proving: table events only
            let mut prog = Program::default();
            prog.id = format!("life{}-{}", seed, i);
            prog.p.label = "verif".into();
            prog.p.gh = gen::gen_life(&mut r, maxcap, maxparties, maxops);
            let mut v = prog.p.clone();
            v.gh = gen::gen_life(&mut r, maxcap, maxparties, maxops);
            prog.v = Some(v);
            events.push(run::setup_event::<C>(&prog));
            let _ = run::make_bp::<C>(&prog.p, "P", Some(&mut events));
            let _ = run::make_bp::<C>(prog.vside(), "V", Some(&mut events));
            events.push(serde_json::json!({"ev":"end","role":"","pres":"","vres":"","decode":"","sync":"na"}));
        }
        events
    }
    fn codec(&self, jobs: &[Value], seed: u64) -> Vec<Value> {
        let mut out = vec![];
        for j in jobs {
            let prog: Program = serde_json::from_value(j["prog"].clone()).expect("program");
            let tests = j["tests"].as_array().cloned().unwrap_or_default();
            for mut row in wire::codec_tests::<C>(&prog, &tests, seed) {
                row["prog_id"] = serde_json::json!(prog.id);
                row["curve"] = serde_json::json!(C::NAME);
                out.push(row);
            }
        }
        out
    }
    fn bitflip(&self, progs: &[Program], stride: usize) -> Vec<Value> {
        progs.iter().map(|p| { let mut v = wire::bitflip_sweep::<C>(p, stride); v["prog_id"] = serde_json::json!(p.id); v }).collect()
    }
    fn mkfixtures(&self, progs: &[Program]) -> Vec<Value> {
        progs.iter().map(|p| wire::make_fixture::<C>(p)).collect()
    }
    fn fixtures(&self, fxs: &[Value]) -> Vec<Value> {
        fxs.iter().map(|f| wire::check_fixture::<C>(f)).collect()
    }
    fn batch(&self, jobs: &[Value], record: bool) -> (Vec<Value>, Vec<Value>) {
        let (mut ev, mut res) = (vec![], vec![]);
        for j in jobs {
            let (e, r) = wire::batch_run::<C>(j, record);
            ev.extend(e);
            res.push(r);
        }
        (ev, res)
    }
    fn mutate(&self, progs: &[Program], n: usize, seed: u64) -> Vec<Value> {
        progs.iter().map(|p| { let mut v = wire::mutate_sweep::<C>(p, n, seed); v["prog_id"] = serde_json::json!(p.id); v }).collect()
    }
}

fn read_json_lines(path: &str) -> Vec<Value> {
    let f = std::fs::File::open(path).expect("open input");
    std::io::BufReader::new(f).lines().map(|l| l.unwrap()).filter(|l| !l.trim().is_empty()).map(|l| serde_json::from_str(&l).unwrap()).collect()
}
fn write_json_lines(path: &str, rows: &[Value]) {
    let mut out = std::io::BufWriter::new(std::fs::File::create(path).unwrap());
    for r in rows {
        writeln!(out, "{}", serde_json::to_string(r).unwrap()).unwrap();
    }
}

fn arg(args: &[String], name: &str) -> Option<String> {
    args.iter().position(|a| a == name).and_then(|i| args.get(i + 1).cloned())
}

fn read_programs(path: &str) -> Vec<Program> {
    let f = std::fs::File::open(path).expect("open programs");
    std::io::BufReader::new(f)
        .lines()
        .map(|l| l.unwrap())
        .filter(|l| !l.trim().is_empty())
        .map(|l| serde_json::from_str::<Program>(&l).unwrap_or_else(|e| panic!("bad program {}: {}", l, e)))
        .collect()
}

fn main() {
    // panics inside the library are data, not noise
    std::panic::set_hook(Box::new(|_| {}));
    let args: Vec<String> = std::env::args().collect();
    let cmd = args.get(1).map(|s| s.as_str()).unwrap_or("");
    match cmd {
        // record --curve C --programs FILE --out TRACE
        "record" => {
            let curve = arg(&args, "--curve").unwrap();
            let progs = read_programs(&arg(&args, "--programs").unwrap());
            let mut out = std::io::BufWriter::new(std::fs::File::create(arg(&args, "--out").unwrap()).unwrap());
            let sums = with_curve(&curve, |c| c.record_programs(&progs, &mut out));
            out.flush().unwrap();
            if let Some(s) = arg(&args, "--summary") {
                std::fs::write(s, serde_json::to_string(&sums).unwrap()).unwrap();
            }
        }
        // replay --curve C --programs FILE --out RESULTS   (B2: behaviours generated by TLC, expectations attached)
        "replay" => {
            let curve = arg(&args, "--curve").unwrap();
            let progs = read_programs(&arg(&args, "--programs").unwrap());
            let res = with_curve(&curve, |c| c.replay_programs(&progs));
            let mut out = std::io::BufWriter::new(std::fs::File::create(arg(&args, "--out").unwrap()).unwrap());
            for r in res {
                writeln!(out, "{}", serde_json::to_string(&r).unwrap()).unwrap();
            }
        }
        // pedersen --curve C [--patterns FILE] --seed S --out FILE
        "pedersen" => {
            let curve = arg(&args, "--curve").unwrap();
            let pats = arg(&args, "--patterns").map(|p| read_json_lines(&p)).unwrap_or_default();
            let seed: u64 = arg(&args, "--seed").map(|s| s.parse().unwrap()).unwrap_or(1);
            let rows = with_curve(&curve, |c| c.pedersen(&pats, seed));
            write_json_lines(&arg(&args, "--out").unwrap(), &rows);
        }
        // ipp --curve C --instances FILE --seed S --out TRACE --results FILE
        "ipp" => {
            let curve = arg(&args, "--curve").unwrap();
            let insts = read_json_lines(&arg(&args, "--instances").unwrap());
            let seed: u64 = arg(&args, "--seed").map(|s| s.parse().unwrap()).unwrap_or(1);
            let (ev, res) = with_curve(&curve, |c| c.ipp(&insts, seed));
            write_json_lines(&arg(&args, "--out").unwrap(), &ev);
            write_json_lines(&arg(&args, "--results").unwrap(), &res);
        }
        // gens --curve C --histories FILE --out FILE
        "gens" => {
            let curve = arg(&args, "--curve").unwrap();
            let hists = read_json_lines(&arg(&args, "--histories").unwrap());
            let rows = with_curve(&curve, |c| c.gens(&hists));
            write_json_lines(&arg(&args, "--out").unwrap(), &rows);
        }
        // gensfacts --curve C --cap N --parties M
        "gensfacts" => {
            let curve = arg(&args, "--curve").unwrap();
            let cap: usize = arg(&args, "--cap").unwrap().parse().unwrap();
            let parties: usize = arg(&args, "--parties").unwrap().parse().unwrap();
            // a comma-separated list of curves: ONE process derives the tables and bases of several curves, in the given order
            // (the generators of a curve do not depend on what else the process has done)
            if curve.contains(',') {
                let vs: Vec<Value> = curve.split(',').map(|cn| with_curve(cn, |c| c.gens_facts(cap, parties))).collect();
                println!("{}", serde_json::to_string(&vs).unwrap());
                return;
            }
            let v = with_curve(&curve, |c| c.gens_facts(cap, parties));
            println!("{}", serde_json::to_string(&v).unwrap());
        }
        // codec --curve C --jobs FILE --seed S --out FILE     (jobs: {"prog":Program,"tests":[..]} per line)
        "codec" => {
            let curve = arg(&args, "--curve").unwrap();
            let jobs = read_json_lines(&arg(&args, "--jobs").unwrap());
            let seed: u64 = arg(&args, "--seed").map(|s| s.parse().unwrap()).unwrap_or(1);
            let rows = with_curve(&curve, |c| c.codec(&jobs, seed));
            write_json_lines(&arg(&args, "--out").unwrap(), &rows);
        }
        // bitflip --curve C --programs FILE --stride N --out FILE
        "bitflip" => {
            let curve = arg(&args, "--curve").unwrap();
            let progs = read_programs(&arg(&args, "--programs").unwrap());
            let stride: usize = arg(&args, "--stride").map(|s| s.parse().unwrap()).unwrap_or(1);
            let rows = with_curve(&curve, |c| c.bitflip(&progs, stride));
            write_json_lines(&arg(&args, "--out").unwrap(), &rows);
        }
        // mutate --curve C --programs FILE --n N --seed S --out FILE
        "mutate" => {
            let curve = arg(&args, "--curve").unwrap();
            let progs = read_programs(&arg(&args, "--programs").unwrap());
            let n: usize = arg(&args, "--n").map(|s| s.parse().unwrap()).unwrap_or(1000);
            let seed: u64 = arg(&args, "--seed").map(|s| s.parse().unwrap()).unwrap_or(1);
            let rows = with_curve(&curve, |c| c.mutate(&progs, n, seed));
            write_json_lines(&arg(&args, "--out").unwrap(), &rows);
        }
        // batch --curve C --jobs FILE --out RESULTS [--trace FILE]
        "batch" => {
            let curve = arg(&args, "--curve").unwrap();
            let jobs = read_json_lines(&arg(&args, "--jobs").unwrap());
            let trace = arg(&args, "--trace");
            let (ev, res) = with_curve(&curve, |c| c.batch(&jobs, trace.is_some()));
            write_json_lines(&arg(&args, "--out").unwrap(), &res);
            if let Some(t) = trace {
                write_json_lines(&t, &ev);
            }
        }
        // mkfixture --curve C --programs FILE --out FILE   (run once, at the reference revision)
        "mkfixture" => {
            let curve = arg(&args, "--curve").unwrap();
            let progs = read_programs(&arg(&args, "--programs").unwrap());
            let rows = with_curve(&curve, |c| c.mkfixtures(&progs));
            write_json_lines(&arg(&args, "--out").unwrap(), &rows);
        }
        // fixture --curve C --fixtures FILE --out FILE
        "fixture" => {
            let curve = arg(&args, "--curve").unwrap();
            let fxs = read_json_lines(&arg(&args, "--fixtures").unwrap());
            let rows = with_curve(&curve, |c| c.fixtures(&fxs));
            write_json_lines(&arg(&args, "--out").unwrap(), &rows);
        }
        // genslife --curve C --seed S --n N [--maxcap K --maxparties M --maxops O] --out TRACE   (table-only traces, any curve)
        "genslife" => {
            let curve = arg(&args, "--curve").unwrap();
            let seed: u64 = arg(&args, "--seed").map(|s| s.parse().unwrap()).unwrap_or(1);
            let n: usize = arg(&args, "--n").map(|s| s.parse().unwrap()).unwrap_or(10);
            let maxcap: usize = arg(&args, "--maxcap").map(|s| s.parse().unwrap()).unwrap_or(16);
            let maxparties: usize = arg(&args, "--maxparties").map(|s| s.parse().unwrap()).unwrap_or(3);
            let maxops: usize = arg(&args, "--maxops").map(|s| s.parse().unwrap()).unwrap_or(6);
            let ev = with_curve(&curve, |c| c.gens_life(seed, n, maxcap, maxparties, maxops));
            write_json_lines(&arg(&args, "--out").unwrap(), &ev);
        }
        // genprogs --seed S --n N --out FILE [--maxops K] [--modulus P]
        "genprogs" => {
            let seed: u64 = arg(&args, "--seed").map(|s| s.parse().unwrap()).unwrap_or(1);
            let n: usize = arg(&args, "--n").map(|s| s.parse().unwrap()).unwrap_or(10);
            let modulus: i64 = arg(&args, "--modulus").map(|s| s.parse().unwrap()).unwrap_or(79);
            let kind = arg(&args, "--kind").unwrap_or_else(|| "mixed".into());
            let mut out = std::io::BufWriter::new(std::fs::File::create(arg(&args, "--out").unwrap()).unwrap());
            for p in gen::gen_programs(seed, n, modulus, &kind) {
                writeln!(out, "{}", serde_json::to_string(&p).unwrap()).unwrap();
            }
        }
        _ => {
            eprintln!("usage: bpverif <record|genprogs> ...");
            std::process::exit(2);
        }
    }
}

/// Compare one run of the real code with the expectations a TLC-generated behaviour carries.
fn check_expectations(p: &Program, events: &[Value], pres: &str, vres: &str, decode: &str) -> Vec<String> {
    let mut bad = vec![];
    let verdict_ok = |exp: &str, got: &str| match exp {
        "" => true,
        "reject" => got != "ok" && !got.starts_with("panic"),
        e => e == got,
    };
    if !verdict_ok(&p.expect_p, pres) {
        bad.push(format!("prove: expected {} got {}", p.expect_p, pres));
    }
    if pres == "ok" && decode == "ok" && !p.vskip && !verdict_ok(&p.expect_v, vres) {
        bad.push(format!("verify: expected {} got {}", p.expect_v, vres));
    }
    if pres.starts_with("panic") || vres.starts_with("panic") || decode.starts_with("panic") {
        bad.push(format!("panic: prove={} decode={} verify={}", pres, decode, vres));
    }
    if let Some(rets) = &p.rets {
        for role in ["P", "V"] {
            if role == "V" && p.vskip {
                continue;
            }
            let exp = rets[role].as_array().cloned().unwrap_or_default();
            let got: Vec<&Value> = events.iter().filter(|e| e["ev"] == "call" && e["role"] == role).collect();
            // a run that stops early (error) yields fewer calls: compare the common prefix, demand full length on success
            let full = (role == "P" && pres == "ok") || (role == "V" && (vres == "ok" || vres == "VerificationError"));
            if full && got.len() != exp.len() && role == "P" {
                bad.push(format!("{}: {} calls observed, {} expected", role, got.len(), exp.len()));
            }
            for (k, (e, g)) in exp.iter().zip(got.iter()).enumerate() {
                // the prover's commit also returns the commitment; the handle is its second component
                let gret = if role == "P" && g["op"] == "commit" { &g["ret"][1] } else { &g["ret"] };
                if e["ret"] != *gret || e["err"] != g["err"] || e["len"] != g["mlen"] {
                    bad.push(format!(
                        "{} call {} ({}): expected ret={} err={} len={} got ret={} err={} len={}",
                        role, k, g["op"], e["ret"], e["err"], e["len"], g["ret"], g["err"], g["mlen"]
                    ));
                    break;
                }
            }
        }
    }
    bad
}
