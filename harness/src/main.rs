mod cv;
mod gen;
mod prog;
mod run;
mod toy;

use cv::*;
use prog::*;
use serde_json::Value;
use std::io::{BufRead, Write};

fn with_curve<R>(name: &str, f: impl FnOnce(&dyn CurveDyn) -> R) -> R {
    match name {
        "toy7" => f(&Dyn::<Toy7>(Default::default())),
        "toy79" => f(&Dyn::<Toy79>(Default::default())),
        "toy31723" => f(&Dyn::<Toy31723>(Default::default())),
        "secq256k1" => f(&Dyn::<Secq>(Default::default())),
        "zorro" => f(&Dyn::<Zorro>(Default::default())),
        "curve25519" => f(&Dyn::<C25519>(Default::default())),
        _ => panic!("unknown curve {}", name),
    }
}

/// object-safe facade over the curve-generic entry points
trait CurveDyn {
    fn record_programs(&self, progs: &[Program], out: &mut dyn Write) -> Vec<Value>;
}
struct Dyn<C: Cv>(std::marker::PhantomData<C>);
impl<C: Cv> CurveDyn for Dyn<C> {
    fn record_programs(&self, progs: &[Program], out: &mut dyn Write) -> Vec<Value> {
        let mut sums = vec![];
        for p in progs {
            let r = run::run_program::<C>(p, true);
            for e in &r.events {
                writeln!(out, "{}", serde_json::to_string(e).unwrap()).unwrap();
            }
            sums.push(serde_json::json!({"id": p.id, "pres": r.pres, "vres": r.vres, "decode": r.decode}));
        }
        sums
    }
}

fn arg(args: &[String], name: &str) -> Option<String> {
    args.iter().position(|a| a == name).and_then(|i| args.get(i + 1).cloned())
}

fn read_programs(path: &str) -> Vec<Program> {
    let f = std::fs::File::open(path).expect("open programs");
    std::io::BufReader::new(f)
        .lines()
        .map(|l| l.unwrap())
        .filter(|l| !l.trim().is_empty())
        .map(|l| serde_json::from_str::<Program>(&l).unwrap_or_else(|e| panic!("bad program {}: {}", l, e)))
        .collect()
}

fn main() {
    // panics inside the library are data, not noise
    std::panic::set_hook(Box::new(|_| {}));
    let args: Vec<String> = std::env::args().collect();
    let cmd = args.get(1).map(|s| s.as_str()).unwrap_or("");
    match cmd {
        // record --curve C --programs FILE --out TRACE
        "record" => {
            let curve = arg(&args, "--curve").unwrap();
            let progs = read_programs(&arg(&args, "--programs").unwrap());
            let mut out = std::io::BufWriter::new(std::fs::File::create(arg(&args, "--out").unwrap()).unwrap());
            let sums = with_curve(&curve, |c| c.record_programs(&progs, &mut out));
            out.flush().unwrap();
            if let Some(s) = arg(&args, "--summary") {
                std::fs::write(s, serde_json::to_string(&sums).unwrap()).unwrap();
            }
        }
        // genprogs --seed S --n N --out FILE [--maxops K] [--modulus P]
        "genprogs" => {
            let seed: u64 = arg(&args, "--seed").map(|s| s.parse().unwrap()).unwrap_or(1);
            let n: usize = arg(&args, "--n").map(|s| s.parse().unwrap()).unwrap_or(10);
            let modulus: i64 = arg(&args, "--modulus").map(|s| s.parse().unwrap()).unwrap_or(79);
            let kind = arg(&args, "--kind").unwrap_or_else(|| "mixed".into());
            let mut out = std::io::BufWriter::new(std::fs::File::create(arg(&args, "--out").unwrap()).unwrap());
            for p in gen::gen_programs(seed, n, modulus, &kind) {
                writeln!(out, "{}", serde_json::to_string(&p).unwrap()).unwrap();
            }
        }
        _ => {
            eprintln!("usage: bpverif <record|genprogs> ...");
            std::process::exit(2);
        }
    }
}
