//! VERIF-TRACE: thread-local event log of every transcript operation.
//!
//! This file and the `crate::trace::emit` calls in `transcript.rs` are the only
//! differences to merlin 3.0.0; the STROBE sponge is untouched, so every challenge
//! is bit-identical to the unpatched crate.

use std::cell::{Cell, RefCell};
use std::vec::Vec;

#[derive(Clone, Debug, PartialEq, Eq)]
pub enum Event {
    New { tid: u32 },
    Append { tid: u32, label: Vec<u8>, msg: Vec<u8> },
    Challenge { tid: u32, label: Vec<u8>, out: Vec<u8> },
    Clone { parent: u32, child: u32 },
    RngBuild { tid: u32, rid: u32 },
    Rekey { rid: u32, label: Vec<u8>, witness: Vec<u8> },
    Finalize { rid: u32, ext: Vec<u8> },
    RngOut { rid: u32, bytes: Vec<u8> },
}

thread_local! {
    static LOG: RefCell<Option<Vec<Event>>> = RefCell::new(None);
    static NEXT: Cell<u32> = Cell::new(1);
}

pub(crate) fn fresh_id() -> u32 {
    NEXT.with(|n| {
        let v = n.get();
        n.set(v + 1);
        v
    })
}

pub(crate) fn emit(e: Event) {
    LOG.with(|l| {
        if let Some(v) = l.borrow_mut().as_mut() {
            v.push(e);
        }
    });
}

/// Start (or restart) recording on this thread.
pub fn start() {
    LOG.with(|l| *l.borrow_mut() = Some(Vec::new()));
}

/// Take everything recorded so far, keep recording.
pub fn drain() -> Vec<Event> {
    LOG.with(|l| match l.borrow_mut().as_mut() {
        Some(v) => std::mem::take(v),
        None => Vec::new(),
    })
}

/// Stop recording and return the log.
pub fn stop() -> Vec<Event> {
    LOG.with(|l| l.borrow_mut().take().unwrap_or_default())
}
