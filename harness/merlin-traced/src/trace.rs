//! VERIF-TRACE: thread-local event log of every transcript operation.
//!
//! This file and the `crate::trace::emit` calls in `transcript.rs` are the only
//! differences to merlin 3.0.0; the STROBE sponge is untouched, so every challenge
//! is bit-identical to the unpatched crate.

use std::cell::{Cell, RefCell};
use std::vec::Vec;

#[derive(Clone, Debug, PartialEq, Eq)]
pub enum Event {
    New { tid: u32 },
    Append { tid: u32, label: Vec<u8>, msg: Vec<u8> },
    Challenge { tid: u32, label: Vec<u8>, out: Vec<u8> },
    Clone { parent: u32, child: u32 },
    RngBuild { tid: u32, rid: u32 },
    Rekey { rid: u32, label: Vec<u8>, witness: Vec<u8> },
    Finalize { rid: u32, ext: Vec<u8> },
    RngOut { rid: u32, bytes: Vec<u8> },
}

thread_local! {
    static LOG: RefCell<Option<Vec<Event>>> = RefCell::new(None);
    static NEXT: Cell<u32> = Cell::new(1);
    /// VERIF-TRACE fault injection: (index of the TranscriptRng output call to disturb, xor mask for its first byte)
    static RNG_FAULT: Cell<Option<(usize, u8)>> = Cell::new(None);
    static RNG_CALLS: Cell<usize> = Cell::new(0);
}

/// Disturb one output of the transcript RNG: the `call`-th `fill_bytes` (0-based, counted from this call on) gets `mask`
/// xor-ed into its first byte before it is handed out. The sponge state is untouched: every other output is what it would
/// have been. Used to find out, by intervention, which RNG draw plays which role in a proof. `None` switches it off.
pub fn set_rng_fault(f: Option<(usize, u8)>) {
    RNG_FAULT.with(|c| c.set(f));
    RNG_CALLS.with(|c| c.set(0));
}

pub(crate) fn rng_fault(dest: &mut [u8]) {
    let k = RNG_CALLS.with(|c| {
        let v = c.get();
        c.set(v + 1);
        v
    });
    if let Some((call, mask)) = RNG_FAULT.with(|c| c.get()) {
        if call == k && !dest.is_empty() {
            dest[0] ^= mask;
        }
    }
}

pub(crate) fn fresh_id() -> u32 {
    NEXT.with(|n| {
        let v = n.get();
        n.set(v + 1);
        v
    })
}

pub(crate) fn emit(e: Event) {
    LOG.with(|l| {
        if let Some(v) = l.borrow_mut().as_mut() {
            v.push(e);
        }
    });
}

/// Start (or restart) recording on this thread.
pub fn start() {
    LOG.with(|l| *l.borrow_mut() = Some(Vec::new()));
}

/// Take everything recorded so far, keep recording.
pub fn drain() -> Vec<Event> {
    LOG.with(|l| match l.borrow_mut().as_mut() {
        Some(v) => std::mem::take(v),
        None => Vec::new(),
    })
}

/// Stop recording and return the log.
pub fn stop() -> Vec<Event> {
    LOG.with(|l| l.borrow_mut().take().unwrap_or_default())
}
