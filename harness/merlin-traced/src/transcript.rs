use rand_core;
use zeroize::Zeroize;

use crate::strobe::Strobe128;

fn encode_u64(x: u64) -> [u8; 8] {
    use byteorder::{ByteOrder, LittleEndian};

    let mut buf = [0; 8];
    LittleEndian::write_u64(&mut buf, x);
    buf
}

fn encode_usize_as_u32(x: usize) -> [u8; 4] {
    use byteorder::{ByteOrder, LittleEndian};

    assert!(x <= (u32::max_value() as usize));

    let mut buf = [0; 4];
    LittleEndian::write_u32(&mut buf, x as u32);
    buf
}

/// A transcript of a public-coin argument.
///
/// The prover's messages are added to the transcript using
/// [`append_message`](Transcript::append_message), and the verifier's
/// challenges can be computed using
/// [`challenge_bytes`](Transcript::challenge_bytes).
///
/// # Creating and using a Merlin transcript
///
/// To create a Merlin transcript, use [`Transcript::new()`].  This
/// function takes a domain separation label which should be unique to
/// the application.
///
/// To use the transcript with a Merlin-based proof implementation,
/// the prover's side creates a Merlin transcript with an
/// application-specific domain separation label, and passes a `&mut`
/// reference to the transcript to the proving function(s).
///
/// To verify the resulting proof, the verifier creates their own
/// Merlin transcript using the same domain separation label, then
/// passes a `&mut` reference to the verifier's transcript to the
/// verification function.
///
/// # Implementing proofs using Merlin
///
/// For information on the design of Merlin and how to use it to
/// implement a proof system, see the documentation at
/// [merlin.cool](https://merlin.cool), particularly the [Using
/// Merlin](https://merlin.cool/use/index.html) section.
#[derive(Zeroize)]
pub struct Transcript {
    strobe: Strobe128,
    /// VERIF-TRACE: identifier of this transcript object in the trace log.
    tid: u32,
}

// VERIF-TRACE: cloning is a protocol-relevant event (forks), so it is logged.
impl Clone for Transcript {
    fn clone(&self) -> Self {
        let tid = crate::trace::fresh_id();
        crate::trace::emit(crate::trace::Event::Clone { parent: self.tid, child: tid });
        Transcript { strobe: self.strobe.clone(), tid }
    }
}

impl Transcript {
    /// Initialize a new transcript with the supplied `label`, which
    /// is used as a domain separator.
    ///
    /// # Note
    ///
    /// This function should be called by a proof library's API
    /// consumer (i.e., the application using the proof library), and
    /// **not by the proof implementation**.  See the [Passing
    /// Transcripts](https://merlin.cool/use/passing.html) section of
    /// the Merlin website for more details on why.
    pub fn new(label: &'static [u8]) -> Transcript {
        use crate::constants::MERLIN_PROTOCOL_LABEL;

        #[cfg(feature = "debug-transcript")]
        {
            use std::str::from_utf8;
            println!(
                "Initialize STROBE-128({})\t# b\"{}\"",
                hex::encode(MERLIN_PROTOCOL_LABEL),
                from_utf8(MERLIN_PROTOCOL_LABEL).unwrap(),
            );
        }

        let mut transcript = Transcript {
            strobe: Strobe128::new(MERLIN_PROTOCOL_LABEL),
            tid: crate::trace::fresh_id(),
        };
        crate::trace::emit(crate::trace::Event::New { tid: transcript.tid });
        transcript.append_message(b"dom-sep", label);

        transcript
    }

    /// Append a prover's `message` to the transcript.
    ///
    /// The `label` parameter is metadata about the message, and is
    /// also appended to the transcript.  See the [Transcript
    /// Protocols](https://merlin.cool/use/protocol.html) section of
    /// the Merlin website for details on labels.
    pub fn append_message(&mut self, label: &'static [u8], message: &[u8]) {
        let data_len = encode_usize_as_u32(message.len());
        self.strobe.meta_ad(label, false);
        self.strobe.meta_ad(&data_len, true);
        self.strobe.ad(message, false);
        crate::trace::emit(crate::trace::Event::Append {
            tid: self.tid,
            label: label.to_vec(),
            msg: message.to_vec(),
        });

        #[cfg(feature = "debug-transcript")]
        {
            use std::str::from_utf8;

            match from_utf8(label) {
                Ok(label_str) => {
                    println!(
                        "meta-AD : {} || LE32({})\t# b\"{}\"",
                        hex::encode(label),
                        message.len(),
                        label_str
                    );
                }
                Err(_) => {
                    println!(
                        "meta-AD : {} || LE32({})",
                        hex::encode(label),
                        message.len()
                    );
                }
            }
            match from_utf8(message) {
                Ok(message_str) => {
                    println!("     AD : {}\t# b\"{}\"", hex::encode(message), message_str);
                }
                Err(_) => {
                    println!("     AD : {}", hex::encode(message));
                }
            }
        }
    }

    /// Deprecated.  This function was renamed to
    /// [`append_message`](Transcript::append_message).
    ///
    /// This is intended to avoid any possible confusion between the
    /// transcript-level messages and protocol-level commitments.
    #[deprecated(since = "1.1.0", note = "renamed to append_message for clarity.")]
    pub fn commit_bytes(&mut self, label: &'static [u8], message: &[u8]) {
        self.append_message(label, message);
    }

    /// Convenience method for appending a `u64` to the transcript.
    ///
    /// The `label` parameter is metadata about the message, and is
    /// also appended to the transcript.  See the [Transcript
    /// Protocols](https://merlin.cool/use/protocol.html) section of
    /// the Merlin website for details on labels.
    ///
    /// # Implementation
    ///
    /// Calls `append_message` with the 8-byte little-endian encoding
    /// of `x`.
    pub fn append_u64(&mut self, label: &'static [u8], x: u64) {
        self.append_message(label, &encode_u64(x));
    }

    /// Deprecated.  This function was renamed to
    /// [`append_u64`](Transcript::append_u64).
    ///
    /// This is intended to avoid any possible confusion between the
    /// transcript-level messages and protocol-level commitments.
    #[deprecated(since = "1.1.0", note = "renamed to append_u64 for clarity.")]
    pub fn commit_u64(&mut self, label: &'static [u8], x: u64) {
        self.append_u64(label, x);
    }

    /// Fill the supplied buffer with the verifier's challenge bytes.
    ///
    /// The `label` parameter is metadata about the challenge, and is
    /// also appended to the transcript.  See the [Transcript
    /// Protocols](https://merlin.cool/use/protocol.html) section of
    /// the Merlin website for details on labels.
    pub fn challenge_bytes(&mut self, label: &'static [u8], dest: &mut [u8]) {
        let data_len = encode_usize_as_u32(dest.len());
        self.strobe.meta_ad(label, false);
        self.strobe.meta_ad(&data_len, true);
        self.strobe.prf(dest, false);
        crate::trace::emit(crate::trace::Event::Challenge {
            tid: self.tid,
            label: label.to_vec(),
            out: dest.to_vec(),
        });

        #[cfg(feature = "debug-transcript")]
        {
            use std::str::from_utf8;

            match from_utf8(label) {
                Ok(label_str) => {
                    println!(
                        "meta-AD : {} || LE32({})\t# b\"{}\"",
                        hex::encode(label),
                        dest.len(),
                        label_str
                    );
                }
                Err(_) => {
                    println!("meta-AD : {} || LE32({})", hex::encode(label), dest.len());
                }
            }
            println!("     PRF: {}", hex::encode(dest));
        }
    }

    /// Fork the current [`Transcript`] to construct an RNG whose output is bound
    /// to the current transcript state as well as prover's secrets.
    ///
    /// See the [`TranscriptRngBuilder`] documentation for more details.
    pub fn build_rng(&self) -> TranscriptRngBuilder {
        let rid = crate::trace::fresh_id();
        crate::trace::emit(crate::trace::Event::RngBuild { tid: self.tid, rid });
        TranscriptRngBuilder {
            strobe: self.strobe.clone(),
            rid,
        }
    }

    /// VERIF-TRACE: identifier of this transcript object in the trace log.
    pub fn verif_tid(&self) -> u32 {
        self.tid
    }
}

/// Constructs a [`TranscriptRng`] by rekeying the [`Transcript`] with
/// prover secrets and an external RNG.
///
/// The prover uses a [`TranscriptRngBuilder`] to rekey with its
/// witness data, before using an external RNG to finalize to a
/// [`TranscriptRng`].  The resulting [`TranscriptRng`] will be a PRF
/// of all of the entire public transcript, the prover's secret
/// witness data, and randomness from the external RNG.
///
/// # Usage
///
/// To construct a [`TranscriptRng`], a prover calls
/// [`Transcript::build_rng()`] to clone the transcript state, then
/// uses [`rekey_with_witness_bytes()`][rekey_with_witness_bytes] to rekey the
/// transcript with the prover's secrets, before finally calling
/// [`finalize()`][finalize].  This rekeys the transcript with the
/// output of an external [`rand_core::RngCore`] instance and returns
/// a finalized [`TranscriptRng`].
///
/// These methods are intended to be chained, passing from a borrowed
/// [`Transcript`] to an owned [`TranscriptRng`] as follows:
/// ```
/// # extern crate merlin;
/// # extern crate rand_core;
/// # use merlin::Transcript;
/// # fn main() {
/// # let mut transcript = Transcript::new(b"TranscriptRng doctest");
/// # let public_data = b"public data";
/// # let witness_data = b"witness data";
/// # let more_witness_data = b"witness data";
/// transcript.append_message(b"public", public_data);
///
/// let mut rng = transcript
///     .build_rng()
///     .rekey_with_witness_bytes(b"witness1", witness_data)
///     .rekey_with_witness_bytes(b"witness2", more_witness_data)
///     .finalize(&mut rand_core::OsRng);
/// # }
/// ```
/// In this example, the final `rng` is a PRF of `public_data`
/// (as well as all previous `transcript` state), and of the prover's
/// secret `witness_data` and `more_witness_data`, and finally, of the
/// output of the thread-local RNG.
/// Note that because the [`TranscriptRng`] is produced from
/// [`finalize()`][finalize], it's impossible to forget
/// to rekey the transcript with external randomness.
///
/// # Note
///
/// Protocols that require randomness in multiple places (e.g., to
/// choose blinding factors for a multi-round protocol) should create
/// a fresh [`TranscriptRng`] **each time they need randomness**,
/// rather than reusing a single instance.  This ensures that the
/// randomness in each round is bound to the latest transcript state,
/// rather than just the state of the transcript when randomness was
/// first required.
///
/// # Typed Witness Data
///
/// Like the [`Transcript`], the [`TranscriptRngBuilder`] provides a
/// minimal, byte-oriented API, and like the [`Transcript`], this API
/// can be extended to allow rekeying with protocol-specific types
/// using an extension trait.  See the [Transcript
/// Protocols](https://merlin.cool/use/protocol.html) section of the
/// Merlin website for more details.
///
/// [rekey_with_witness_bytes]: TranscriptRngBuilder::rekey_with_witness_bytes
/// [finalize]: TranscriptRngBuilder::finalize
pub struct TranscriptRngBuilder {
    strobe: Strobe128,
    rid: u32,
}

impl TranscriptRngBuilder {
    /// Rekey the transcript using the provided witness data.
    ///
    /// The `label` parameter is metadata about `witness`.
    pub fn rekey_with_witness_bytes(
        mut self,
        label: &'static [u8],
        witness: &[u8],
    ) -> TranscriptRngBuilder {
        let witness_len = encode_usize_as_u32(witness.len());
        self.strobe.meta_ad(label, false);
        self.strobe.meta_ad(&witness_len, true);
        self.strobe.key(witness, false);
        crate::trace::emit(crate::trace::Event::Rekey {
            rid: self.rid,
            label: label.to_vec(),
            witness: witness.to_vec(),
        });

        self
    }

    /// Deprecated.  This function was renamed to
    /// [`rekey_with_witness_bytes`](Transcript::rekey_with_witness_bytes).
    ///
    /// This is intended to avoid any possible confusion between the
    /// transcript-level messages and protocol-level commitments.
    #[deprecated(
        since = "1.1.0",
        note = "renamed to rekey_with_witness_bytes for clarity."
    )]
    pub fn commit_witness_bytes(
        self,
        label: &'static [u8],
        witness: &[u8],
    ) -> TranscriptRngBuilder {
        self.rekey_with_witness_bytes(label, witness)
    }

    /// Use the supplied external `rng` to rekey the transcript, so
    /// that the finalized [`TranscriptRng`] is a PRF bound to
    /// randomness from the external RNG, as well as all other
    /// transcript data.
    pub fn finalize<R>(mut self, rng: &mut R) -> TranscriptRng
    where
        R: rand_core::RngCore + rand_core::CryptoRng,
    {
        let random_bytes = {
            let mut bytes = [0u8; 32];
            rng.fill_bytes(&mut bytes);
            bytes
        };

        self.strobe.meta_ad(b"rng", false);
        self.strobe.key(&random_bytes, false);
        crate::trace::emit(crate::trace::Event::Finalize {
            rid: self.rid,
            ext: random_bytes.to_vec(),
        });

        TranscriptRng {
            strobe: self.strobe,
            rid: self.rid,
        }
    }
}

/// An RNG providing synthetic randomness to the prover.
///
/// A [`TranscriptRng`] is constructed from a [`Transcript`] using a
/// [`TranscriptRngBuilder`]; see its documentation for details on
/// how to construct one.
///
/// The transcript RNG construction is described in the [Generating
/// Randomness](https://merlin.cool/transcript/rng.html) section of
/// the Merlin website.
pub struct TranscriptRng {
    strobe: Strobe128,
    rid: u32,
}

impl rand_core::RngCore for TranscriptRng {
    fn next_u32(&mut self) -> u32 {
        rand_core::impls::next_u32_via_fill(self)
    }

    fn next_u64(&mut self) -> u64 {
        rand_core::impls::next_u64_via_fill(self)
    }

    fn fill_bytes(&mut self, dest: &mut [u8]) {
        let dest_len = encode_usize_as_u32(dest.len());
        self.strobe.meta_ad(&dest_len, false);
        self.strobe.prf(dest, false);
        crate::trace::rng_fault(dest);
        crate::trace::emit(crate::trace::Event::RngOut {
            rid: self.rid,
            bytes: dest.to_vec(),
        });
    }

    fn try_fill_bytes(&mut self, dest: &mut [u8]) -> Result<(), rand_core::Error> {
        self.fill_bytes(dest);
        Ok(())
    }
}

impl rand_core::CryptoRng for TranscriptRng {}

