//! Traced copy of merlin 3.0.0 (VERIF-TRACE): identical sponge, plus a thread-local
//! event log of every transcript operation (see `trace`). Always built with std.
#![allow(unexpected_cfgs)]

#[macro_use]
extern crate std;

mod constants;
mod strobe;
pub mod trace;
mod transcript;

pub use crate::transcript::Transcript;
pub use crate::transcript::TranscriptRng;
pub use crate::transcript::TranscriptRngBuilder;
