/// Domain separation label to initialize the STROBE context.
///
/// This is not to be confused with the crate's semver string:
/// the latter applies to the API, while this label defines the protocol.
/// E.g. it is possible that crate 2.0 will have an incompatible API,
/// but implement the same 1.0 protocol.
pub const MERLIN_PROTOCOL_LABEL: &[u8] = b"Merlin v1.0";
