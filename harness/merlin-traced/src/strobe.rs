//! Minimal implementation of (parts of) Strobe.

use core::ops::{Deref, DerefMut};

use keccak;
use zeroize::Zeroize;

/// Strobe R value; security level 128 is hardcoded
const STROBE_R: u8 = 166;

const FLAG_I: u8 = 1;
const FLAG_A: u8 = 1 << 1;
const FLAG_C: u8 = 1 << 2;
const FLAG_T: u8 = 1 << 3;
const FLAG_M: u8 = 1 << 4;
const FLAG_K: u8 = 1 << 5;

fn transmute_state(st: &mut AlignedKeccakState) -> &mut [u64; 25] {
    unsafe { &mut *(st as *mut AlignedKeccakState as *mut [u64; 25]) }
}

/// This is a wrapper around 200-byte buffer that's always 8-byte aligned
/// to make pointers to it safely convertible to pointers to [u64; 25]
/// (since u64 words must be 8-byte aligned)
#[derive(Clone, Zeroize)]
#[zeroize(drop)]
#[repr(align(8))]
struct AlignedKeccakState([u8; 200]);

/// A Strobe context for the 128-bit security level.
///
/// Only `meta-AD`, `AD`, `KEY`, and `PRF` operations are supported.
#[derive(Clone, Zeroize)]
pub struct Strobe128 {
    state: AlignedKeccakState,
    pos: u8,
    pos_begin: u8,
    cur_flags: u8,
}

impl ::core::fmt::Debug for Strobe128 {
    fn fmt(&self, f: &mut ::core::fmt::Formatter<'_>) -> ::core::fmt::Result {
        // Ensure that the Strobe state isn't accidentally logged
        write!(f, "Strobe128: STATE OMITTED")
    }
}

impl Strobe128 {
    pub fn new(protocol_label: &[u8]) -> Strobe128 {
        let initial_state = {
            let mut st = AlignedKeccakState([0u8; 200]);
            st[0..6].copy_from_slice(&[1, STROBE_R + 2, 1, 0, 1, 96]);
            st[6..18].copy_from_slice(b"STROBEv1.0.2");
            keccak::f1600(transmute_state(&mut st));

            st
        };

        let mut strobe = Strobe128 {
            state: initial_state,
            pos: 0,
            pos_begin: 0,
            cur_flags: 0,
        };

        strobe.meta_ad(protocol_label, false);

        strobe
    }

    pub fn meta_ad(&mut self, data: &[u8], more: bool) {
        self.begin_op(FLAG_M | FLAG_A, more);
        self.absorb(data);
    }

    pub fn ad(&mut self, data: &[u8], more: bool) {
        self.begin_op(FLAG_A, more);
        self.absorb(data);
    }

    pub fn prf(&mut self, data: &mut [u8], more: bool) {
        self.begin_op(FLAG_I | FLAG_A | FLAG_C, more);
        self.squeeze(data);
    }

    pub fn key(&mut self, data: &[u8], more: bool) {
        self.begin_op(FLAG_A | FLAG_C, more);
        self.overwrite(data);
    }
}

impl Strobe128 {
    fn run_f(&mut self) {
        self.state[self.pos as usize] ^= self.pos_begin;
        self.state[(self.pos + 1) as usize] ^= 0x04;
        self.state[(STROBE_R + 1) as usize] ^= 0x80;
        keccak::f1600(transmute_state(&mut self.state));
        self.pos = 0;
        self.pos_begin = 0;
    }

    fn absorb(&mut self, data: &[u8]) {
        for byte in data {
            self.state[self.pos as usize] ^= byte;
            self.pos += 1;
            if self.pos == STROBE_R {
                self.run_f();
            }
        }
    }

    fn overwrite(&mut self, data: &[u8]) {
        for byte in data {
            self.state[self.pos as usize] = *byte;
            self.pos += 1;
            if self.pos == STROBE_R {
                self.run_f();
            }
        }
    }

    fn squeeze(&mut self, data: &mut [u8]) {
        for byte in data {
            *byte = self.state[self.pos as usize];
            self.state[self.pos as usize] = 0;
            self.pos += 1;
            if self.pos == STROBE_R {
                self.run_f();
            }
        }
    }

    fn begin_op(&mut self, flags: u8, more: bool) {
        // Check if we're continuing an operation
        if more {
            assert_eq!(
                self.cur_flags, flags,
                "You tried to continue op {:#b} but changed flags to {:#b}",
                self.cur_flags, flags,
            );
            return;
        }

        // Skip adjusting direction information (we just use AD, PRF)
        assert_eq!(
            flags & FLAG_T,
            0u8,
            "You used the T flag, which this implementation doesn't support"
        );

        let old_begin = self.pos_begin;
        self.pos_begin = self.pos + 1;
        self.cur_flags = flags;

        self.absorb(&[old_begin, flags]);

        // Force running F if C or K is set
        let force_f = 0 != (flags & (FLAG_C | FLAG_K));

        if force_f && self.pos != 0 {
            self.run_f();
        }
    }
}

impl Deref for AlignedKeccakState {
    type Target = [u8; 200];

    fn deref(&self) -> &Self::Target {
        &self.0
    }
}

impl DerefMut for AlignedKeccakState {
    fn deref_mut(&mut self) -> &mut Self::Target {
        &mut self.0
    }
}

#[cfg(test)]
mod tests {
    use strobe_rs::{self, SecParam};

    #[test]
    fn test_conformance() {
        let mut s1 = super::Strobe128::new(b"Conformance Test Protocol");
        let mut s2 = strobe_rs::Strobe::new(b"Conformance Test Protocol", SecParam::B128);

        // meta-AD(b"msg"); AD(msg)

        let msg = [99u8; 1024];

        s1.meta_ad(b"ms", false);
        s1.meta_ad(b"g", true);
        s1.ad(&msg, false);

        s2.meta_ad(b"ms", false);
        s2.meta_ad(b"g", true);
        s2.ad(&msg, false);

        // meta-AD(b"prf"); PRF()

        let mut prf1 = [0u8; 32];
        s1.meta_ad(b"prf", false);
        s1.prf(&mut prf1, false);

        let mut prf2 = [0u8; 32];
        s2.meta_ad(b"prf", false);
        s2.prf(&mut prf2, false);

        assert_eq!(prf1, prf2);

        // meta-AD(b"key"); KEY(prf output)

        s1.meta_ad(b"key", false);
        s1.key(&prf1, false);

        s2.meta_ad(b"key", false);
        s2.key(&prf2, false);

        // meta-AD(b"prf"); PRF()

        let mut prf1 = [0u8; 32];
        s1.meta_ad(b"prf", false);
        s1.prf(&mut prf1, false);

        let mut prf2 = [0u8; 32];
        s2.meta_ad(b"prf", false);
        s2.prf(&mut prf2, false);

        assert_eq!(prf1, prf2);
    }
}
