#!/usr/bin/env python3
"""Regenerates /verif/MANIFEST.json from the table below (one source of truth for the registered checks)."""
import json, os, subprocess
HERE = os.path.dirname(os.path.dirname(os.path.abspath(__file__)))

CHECKS = {
    "C01": dict(tech="TLC-generated programs (MC_Builder Rich) replayed on the real code with the model's ideal verdict; TLC trace validation (IdealCompleteness) of recorded toy-curve runs, incl. random programs with free constraints over small values (the specification's Satisfied as the oracle)",
                text="Every program of the bounded TLA+ builder model whose model assignment satisfies all constraints is replayed through the real Prover/Verifier on all three curves and must be accepted; recorded runs of random honest programs on toy curves are checked by TLC against the specification's statement semantics.",
                note="bounded call depth; ideal verdicts on 256-bit curves; trusted: TLC, arkworks, traced Merlin copy (sponge untouched)", ref="5 C01"),
    "C02": dict(tech="TLC-generated deviation programs (offsets of +-1 and confusion deviations: the constraint would hold if a wire were its neighbour) replayed on the real code (must be rejected); position sweeps (every row of a large statement, every gate of a two-phase circuit); TLC trace validation (IdealSoundness) on toy31723 of bad-witness programs and of random programs with free constraints over small values, with re-run of lucky accepts",
                text="Every single violated constraint or gate of every bounded program is pushed through the unmodified proving code (guarded gate-overwrite hook) and must be rejected on all curves; the model's DeviationIffUnsatisfied invariant ties the expectation to the statement semantics.",
                note="bounded call depth; one or two deviations per program; Schwartz-Zippel luck on the toy curve handled by re-running with fresh randomness", ref="5 C02"),
    "C03": dict(tech="TLC trace validation on toy curves: the verifier's verdict is recomputed from the recorded statement, proof and challenges (combined check, unbatched relations with explicit folding), including proofs crafted with the combiner the verifier derived for the unaltered proof (combiner attack) and circuits whose randomized closures create no gate; the code must have derived every challenge the specification's verifier derives",
                text="For every verify call recorded on toy7/toy79/toy31723 (honest, bad-witness and tampered proofs) TLC recomputes the specification's verdict, the residuals Tres and Ires of the unbatched relations and the combined residual, and demands verdict equality, mega = Ires + r*Tres and verdict = relations up to the single colliding r; small groups make a mis-weighted or dropped term visible.",
                note="toy curves only (exact recomputation needs P^2 < 2^31); the library code is curve-generic, so the same monomorphised logic runs on the real curves; challenge scalars taken as derived by the code (hook H3)", ref="5 C03"),
    "C05": dict(tech="replay of every single verifier-side statement/context deviation on the real code (seven base statements, a 300/600-row statement with every row deviating in turn, a statement with 300/600 commitments) + TLC trace validation on toy31723 (StatementBinding invariant over the recorded calls of both roles, exact verdict of the deviating statement)",
                text="For seven base statements every single deviation of label, application data (before construction, in phase 1, inside a callback), commitments (value, blinding, extra, missing, reordered, transposed), coefficients and constants (appended, prepended, changed in place, spelt as a separate term after / before the satisfying constant), an empty randomized closure on one side only, and the two Pedersen bases is run: rejected on the 256-bit curves; on toy31723 TLC rebuilds both statements from the recorded calls and requires equal transcripts, satisfied verifier constraints and agreeing bases whenever the code accepts.",
                note="single deviations; ideal verdicts on 256-bit curves; toy luck handled by re-running under fresh seeds", ref="5 C05"),
    "C06": dict(tech="TLC trace validation of traced-Merlin operation logs of both roles against the specification's operation schedule (order-preserving embedding), RoleSync invariant",
                text="Every transcript operation of prover and verifier (label, payload identity, order, challenges, forks, RNG construction) recorded from the real code is matched by TLC against the schedule the specification derives for the statement and proof shape; returned transcripts must drive equal follow-up challenges.",
                note="payload identity by value on toy curves; extra identical appends tolerated (C18 demands equality)", ref="5 C06"),
    "C04": dict(tech="TLC model checking of EveryFieldWeighted/EveryFieldAbsorbed on the verifier model (MC_Tamper) + replay of every (shape, field, alteration) on the real code + TLC trace validation on toy31723 (IdealIntegrity over the code's verdicts; IntegrityOrder: every proof element absorbed before each later challenge, the fork's combiner r included) + exhaustive single-bit flips",
                text="Every field of the proof is shown to carry a non-zero weight and to be absorbed before the next challenge in the model; every generated alteration of honest one- and two-phase proofs and every single-bit flip of their encodings must be rejected at decoding or verification (or decode to the identical object) on all curves.",
                note="n <= 5 (9); 2 (9) encodings per curve for the bit sweep; toy verdicts exact", ref="5 C04"),
    "C07": dict(tech="TLC model checking of BatchIff/BatchCorrelated over F_7 (MC_Batch, with failing shared-weight and affine-weight spec mutants; +d/-d pair and +d/-2d/+d triple) and of batch_verify over the full verifier algebra (MC_BatchSys: members are complete runs of System; BatchSysIff, BatchSysFirst, PairOpposite) + replay of every batch pattern and order on the real batch_verify + TLC trace validation of the batch verdict from recorded weights on toy curves",
                text="Every pattern of valid/tampered/bad-witness/+d/-d members up to the bound, in every order, and larger batches with one invalid member per position and an embedded +-d pair, run through the real batch_verify: the verdict must equal the conjunction of individual verdicts on the 256-bit curves and the specification's weighted-residual verdict on toy curves.",
                note="patterns <= 3 (4) members, all orders for <= 3; batches of 6 (12) and the empty batch; weights recovered from the seeded caller RNG; a batch accepted by coincidence on a toy group must repeat under two other weight seeds to count", ref="5 C07"),
    "C08": dict(tech="TLC enumeration of structurally arbitrary proofs (MC_Hostile: TotalVerifier, ShapeGuardExact) + replay of every grid point through from_bytes/verify under catch_unwind + TLC trace validation of the exact verdict on toy31723 + seeded byte mutations with an allocation meter",
                text="Every (gates, |L|, |R|) grid point and every field forced to identity/zero is built by surgery on an honest proof and verified on all curves; a panic or a verdict other than the specification's is a violation; decoder memory is metered against a linear bound under inflated counts and random mutations.",
                note="grid gates <= 9 (12), lengths <= 6 (9), also through batch_verify; catch_unwind instead of the crate's panic=abort; a process abort (allocation sized from a count) is caught through a write-ahead record of the decoder input; one genuine defect found by this check and repaired (known_findings.json)", ref="5 C08, 6"),
    "C09": dict(tech="TLC model checking of NonceInjective/BlindingPresent on the reference prover (MC_Hiding) + TLC trace validation: the emitted proof equals the reference prover's output on the recorded RNG stream, RNG construction operations + differential runs on the real curves",
                text="On toy curves every proof field is recomputed by TLC from the witness, the recorded transcript-RNG stream and the challenges, so each blinding scalar is shown to be its own fresh draw and the draw count is exact; the RNG must be built from a transcript fork, one rekey per commitment blinding and 32 external bytes; on the 256-bit curves proofs under different external seeds share no component outside the statement-fixed ones.",
                note="which draw plays which role is found by intervention on the RNG stream (traced Merlin copy) and must be a bijection; the draw order is not assumed; value-level part on toy31723 only (generators coincide on toy79); shapes n1<=3 (5), n2<=2 (4) in the model", ref="5 C09"),
    "C10": dict(tech="TLC model checking of the inner-product argument (MC_IPP: exhaustive over F_7, sampled at P=31723 for k<=7) + TLC trace validation of create/verify on toy curves + replay of TLC-chosen instance patterns on the real curves, incl. openings adapted to the round challenges the code derived (frozen-challenge openings, hook H3)",
                text="Completeness, equivalence with explicit folding, rejection classes and the unrolled-first-round identity are model-checked; every create and verify run on toy curves through the guarded re-export is recomputed by TLC field by field (L, R, a, b, round count, verdict, transcript operations); the same instance patterns run on the 256-bit curves with ideal verdicts.",
                note="k <= 5 quick / 7 thorough; toy exactness needs P^2 < 2^31; zero challenges on toy curves are degenerate events", ref="5 C10"),
    "C11": dict(tech="TLC model checking of the decoder state machine (Codec/MC_Codec) and of the composed machine (MC_Library: EncodeLaw, HostileStream, TrailingIgnored) + one generated test per (k, prefix length) and per (token, invalid class) run through the real from_bytes + TLC trace validation of recorded byte-level sessions (to_bytes token stream, adversarial bytes, from_bytes) against Library.tla on toy curves",
                text="Size law, determinism, re-encode equality and equal verdict are checked per circuit shape; every strict prefix and every token position x invalid class (scalar >= modulus, off-curve, non-canonical, outside the prime-order subgroup) of honest encodings must yield FormatError; trailing bytes must decode to the identical proof.",
                note="k <= 3 (4); per-curve token sizes; arkworks' unchecked decoder is the oracle for 'not a curve point'", ref="5 C11"),
    "C12": dict(tech="TLC enumeration of all capacity histories and views (MC_Gens: HistoryIndependent, ViewPartyMajor; MC_Library: ChainIsGT, ChainGrows) + execution of every history and view on the real generator tables + pinned digests + process lives (MC_Process: every order of uses of the three curves within one process) + TLC trace validation of recorded table lives of both roles against Library.tla (every table and view a window of one generator function per trace file; GensBound at prove / verify)",
                text="Every history of new/increase_capacity/serialise-deserialise/clone within the bounds and every (n, m) view is executed on the real tables and compared entry by entry with the abstract chain; distinctness, non-identity, prime order and bit-for-bit digests from the reference revision are checked on large tables.",
                note="capacities <= 4 (6), parties <= 2 (3), <= 3 (4) operations in the enumeration; recorded lives up to 6 (10) operations, capacities to 16 (32); every recorded view is also walked through nth / skip / step_by / count / last / size_hint; digests pinned in fixtures/gens_digests.json", ref="5 C12"),
    "C13": dict(tech="TLC model checking of the Pedersen laws over F_7 + TLC trace validation of every (v, r) on toy7/toy79 + law instances on the real curves from TLC-chosen value-class patterns",
                text="Commit(v,r) = v*B + r*B~ is recomputed by TLC for every pair of the toy fields on three base pairs (and Prover::commit with its transcript append); on the 256-bit curves the definition and the linearity laws are checked against independent evaluations on value classes 0, 1, -1, > 2^64, order-2, random.",
                note="toy: exact by discrete logs; real: arkworks group arithmetic trusted", ref="5 C13"),
    "C15": dict(tech="TLC model checking of LCDenotation over all expression trees (MC_LC) + replay of every tree built with the real operators (accept at the value, reject off by one) + TLC trace validation on toy curves",
                text="Every expression tree up to the depth bound is enumerated by TLC, the specification's transcription of each operator impl is checked against the tree's meaning, and each tree is built with the real operators and constrained to its value (must verify) and to its value plus one (must not) on all curves.",
                note="depth 1 (all leaf kinds) quick, depth 2 thorough; real-curve constants computed by the harness evaluator, which TLC cross-checks on toy runs", ref="5 C15"),
    "C17": dict(tech="TLC enumeration of the full (n1, n2, capP, capV) grid (gates by allocate_multiplier, and with the last gate of a phase a half-open single allocation) with ThresholdExact on the protocol model's guards and of table histories in the composed machine (MC_Library: CapLawP, CapLawV) + replay of every grid point on the real code (prove, verify, batch_verify at every shared capacity) + TLC trace validation of recorded sessions whose capacity is the state of a generator table (capacity error iff table capacity < padded size)",
                text="The whole grid is enumerated; the model's expected result (ok / InvalidGeneratorsLength) for prove and verify at each point is compared with the real code on all curves, panics are violations, and proofs made at different sufficient capacities with the same seed must be byte-identical.",
                note="grid (0..5)^2 x (0..9)^2 quick, (0..9)^2 x (0..17)^2 thorough", ref="5 C17"),
    "C16": dict(tech="TLC model checking of the lock-step builder model (MC_Builder) + replay of every generated call sequence on the real Prover and Verifier, also under other assignments (zeros, ones, minus ones: handles do not depend on values)",
                text="All call sequences up to the bound are enumerated by TLC (mirror/pending/error invariants) and each is replayed on the real code comparing handles, error kinds and gate counts call by call in both phases.",
                note="bounded call depth (6-8 for invariants, 4-5 for replay); second-phase calls placed in the first callback", ref="5 C16"),
    "C18": dict(tech="fixtures recorded from the reference revision re-verified by the current code (verify-only) + pinned generator digests + TLC trace validation of the reference revision's recorded traces and of fresh traces against the same specification (transcript equality)",
                text="Recorded proofs for their statements and recorded wrong statements must get the recorded verdicts, recorded bytes must re-encode and token sizes persist, generators and bases must match pinned digests; the recorded traces of the reference revision validate against the specification, which makes the specification that revision's wire contract, and fresh traces of the current tree must satisfy the same contract with equal transcript operations.",
                note="fixtures/wire/*.ndjson, fixtures/gens_digests.json: recorded once, never regenerated", ref="5 C18"),
}

NOT_APPLICABLE = {
    "C14": "facts about 255-bit constants (primality, group order, curve equation); no state, transitions or traces for a TLA+ model to enumerate, and TLC integers are 32-bit",
}

ALL = ["C%02d" % i for i in range(1, 19)]


def main():
    checks = []
    for pid in sorted(CHECKS):
        c = CHECKS[pid]
        checks.append({
            "property_id": pid,
            "quick_cmd": "bin/check %s --tier quick" % pid,
            "thorough_cmd": "bin/check %s --tier thorough" % pid,
            "evidence_file": "/verif/evidence/%s.json" % pid,
            "replay_cmd_template": "bin/check %s --replay {path}" % pid,
            "engine": "tla-conformance",
            "level_claimed": {"category": "model_checking", "text": c["text"], "design_ref": "DESIGN.md section " + c["ref"]},
            "level_note": c["note"],
            "technique": c["tech"],
        })
    na = [{"property_id": p, "reason": r} for p, r in sorted(NOT_APPLICABLE.items())]
    for p in ALL:
        if p not in CHECKS and p not in NOT_APPLICABLE:
            na.append({"property_id": p, "reason": "check not registered yet (under construction in this round); not a claim that the technique cannot apply"})
    hooks = subprocess.run(["git", "-C", "/repo", "log", "--format=%H %s", "--grep=^verif-hooks"], stdout=subprocess.PIPE, text=True).stdout.split("\n")
    man = {
        "version": 1,
        "setup_cmd": "cd /verif/harness && CARGO_NET_OFFLINE=true cargo build --offline",
        "hooks": {
            "guard": "cargo feature verif-hooks (off by default)",
            "enable": "the harness crate depends on /repo by path with features = [\"verif-hooks\"]; cargo build --offline in /verif/harness",
            "baseline_off_cmd": "cd /repo && cargo test --workspace --no-fail-fast --offline",
            "source_commits": [h.split(" ")[0] for h in hooks if h.strip()],
            "add_only": True,
        },
        "engines": [{"name": "tla-conformance", "path": "/verif/bin/check",
                     "serves_properties": sorted(CHECKS),
                     "kind_free_text": "explicit TLA+ specification (spec/*.tla) checked with TLC; bound to the code by replaying TLC-generated behaviours into the real library and by validating traces recorded from the real library (toy curves: every value recomputed by TLC) against the specification"}],
        "checks": checks,
        "not_applicable": sorted(na, key=lambda x: x["property_id"]),
        "notes": "bin/check <ID> [--tier quick|thorough] [--replay PATH]; exit 0 ok, 1 VIOLATION, 2 tool error. VERIF_SEED / VERIF_TIER honoured.",
    }
    with open(os.path.join(HERE, "MANIFEST.json"), "w") as f:
        json.dump(man, f, indent=1)


main()
