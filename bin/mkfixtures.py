#!/usr/bin/env python3
"""Records /verif/fixtures/wire/*.ndjson from the reference revision. Run ONCE (at the pinned revision plus the two
behaviour-preserving-on-valid-input fix commits); the checks never regenerate fixtures."""
import json, os, subprocess, sys
HERE = os.path.dirname(os.path.dirname(os.path.abspath(__file__)))
sys.path.insert(0, os.path.join(HERE, "lib")); sys.path.insert(0, HERE)
import vlib
from checks.C05 import bases, deviations
from checks.C07 import member
from checks.C04 import two_phase

out = os.path.join(HERE, "fixtures", "wire")
os.makedirs(out, exist_ok=True)
progs = []
for b in bases(20261001):
    progs.append({"id": "fx-%s" % b["id"], "p": b["p"], "seed": b["seed"]})
    for name, v, exp in deviations(b):
        if name in ("label", "pre-missing", "commit-value-0", "commit-reordered", "commit-extra", "blinding-base", "ops-constant-4", "ops-constant-2", "cb0-append-changed-1", "ops-coefficient-4-1"):
            progs.append({"id": "fx-%s-wrong-%s" % (b["id"], name), "p": b["p"], "v": v, "seed": b["seed"]})
for n in (0, 1, 2, 3, 4, 7, 8, 16):
    progs.append(member(n, "good", "fx", 777 + n))
for n in (1, 2, 5):
    progs.append(two_phase(n, "fx", 888 + n))
vlib.build()
for c in vlib.REAL_CURVES + vlib.TOY_CURVES:
    pp = os.path.join(out, "progs.tmp")
    vlib.write_ndjson(pp, progs)
    fp = os.path.join(out, "%s.ndjson" % c)
    vlib.harness("mkfixture", "--curve", c, "--programs", pp, "--out", fp)
    os.remove(pp)
    rows = vlib.read_ndjson(fp)
    print(c, len(rows), sum(1 for r in rows if r.get("vres") == "ok"), "accepted;", sum(1 for r in rows if r.get("vres") not in ("ok", None)), "rejected;", sum(1 for r in rows if "error" in r), "prover errors")
    # toy curves: also the full recorded traces of the reference revision (spec <-> reference revision)
    if c in ("toy79", "toy31723"):
        tp = os.path.join(out, "%s.trace.ndjson" % c)
        vlib.harness("record", "--curve", c, "--programs", fp.replace(".ndjson", ".progs"), "--out", tp) if False else None
