#!/bin/bash
# seedsweep.sh <seed>...   runs every registered quick check under each seed (for shaking out flakiness); to be used with
# `vp run --with-repo`: the harness is re-pointed at the repository snapshot so that the live /repo can be edited meanwhile.
cd "$(dirname "$0")/.."
if [ -n "${VP_RUN_REPO:-}" ]; then sed -i "s#path = \"/repo\"#path = \"$VP_RUN_REPO\"#" harness/Cargo.toml; fi
(cd harness && cargo build --offline 2>&1 | tail -1)
for s in "$@"; do
  for c in C01 C02 C03 C04 C05 C06 C07 C08 C09 C10 C11 C12 C13 C15 C16 C17 C18; do
    out=$(VERIF_SEED=$s bin/check $c --tier quick 2>&1); rc=$?
    echo "seed=$s $c rc=$rc $(echo "$out" | grep -E '^VIOLATION|TOOL ERROR' | head -2 | tr '\n' ' ')"
  done
done
