#!/bin/bash
# thorough_all.sh [ids...]: runs the thorough tier of every (or the given) check; meant for `vp run --with-repo`
cd "$(dirname "$0")/.."
if [ -n "${VP_RUN_REPO:-}" ]; then sed -i "s#path = \"/repo\"#path = \"$VP_RUN_REPO\"#" harness/Cargo.toml; fi
(cd harness && cargo build --offline 2>&1 | tail -1)
ids="$@"; [ -z "$ids" ] && ids="C05 C13 C18 C12 C11 C17 C16 C15 C09 C07 C06 C02 C01 C08 C10 C04 C03"
for c in $ids; do
  s=$(date +%s)
  out=$(bin/check $c --tier thorough 2>&1); rc=$?
  echo "$c thorough rc=$rc $(( $(date +%s) - s ))s $(echo "$out" | grep -E '^VIOLATION|TOOL ERROR' | head -2 | tr '\n' ' ')"
  python3 -c "
import json; e=json.load(open('evidence/$c.json')); c=e['coverage']; print('   ', {k:c[k] for k in c if k in ('states','transitions','traces_validated_against_impl','evaluations','distinct_nontrivial','replayed_behaviours')})" 2>/dev/null
done
