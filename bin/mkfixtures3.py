#!/usr/bin/env python3
"""Third set of fixtures recorded from the reference revision (large statements, many commitments, a 40-gate two-phase circuit, shapes with
single allocations next to multiplications, zero assignments, a constraint over the right wire and the output of one gate).
Writes fixtures/wire/<curve>.more2.ndjson; refuses to overwrite."""
import json, os, sys
HERE = os.path.dirname(os.path.dirname(os.path.abspath(__file__)))
sys.path.insert(0, os.path.join(HERE, "lib")); sys.path.insert(0, HERE)
import vlib
from checks.C02 import big_statement
MUL = {"op": "allocmul", "l": 2, "r": 3}
progs = []


def add(pid, p, wrongs=()):
    progs.append({"id": pid, "p": p, "seed": 777 + len(progs)})
    for name, v in wrongs:
        progs.append({"id": "%s-wrong-%s" % (pid, name), "p": p, "v": v, "seed": progs[-1]["seed"]})


def side(ops, cbs=(), cap=1):
    return {"label": "verif", "pre": [], "ops": ops, "cbs": [list(c) for c in cbs], "cap": cap}


# 300 public rows over two commitments; wrong statements: the constant of row 252 (constraint 255), of row 7, of the last row
p = side(big_statement(300))
ws = []
for j in (7, 252, 253, 299):
    v = json.loads(json.dumps(p)); v["ops"][3 + j]["lc"].append(["1", 0, 1]); ws.append(("row%d" % j, v))
add("fx-rows-300", p, ws)
# 70 commitments, each referenced by one row; wrong: commitment 63 / 64 / 69 changed
ops = [{"op": "commit", "v": j % 5 + 1, "vb": j + 1} for j in range(70)] + [{"op": "mul", "l": [["V", 0, 1]], "r": [["V", 69, 1]]}]
ops += [{"op": "con", "lc": [["V", j, j % 3 + 1]], "fix": j + 1} for j in range(70)]
p = side(ops)
ws = []
for j in (0, 63, 64, 69):
    v = json.loads(json.dumps(p)); v["ops"][j]["v"] += 1; ws.append(("commit%d" % j, v))
add("fx-commits-70", p, ws)
# two-phase, 24 + 16 gates (padded to 64), a challenge-dependent constraint over the last gates of both phases
cb = [{"op": "chal", "label": "c"}] + [dict(MUL, r=3 + k % 4) for k in range(16)] + \
     [{"op": "con", "lc": [["O", 39, {"k0": 1, "ch": 0, "k1": 1}], ["O", 23, 2], ["V", 0, 1]], "fix": 1}]
p = side([{"op": "commit", "v": 11, "vb": 5}] + [dict(MUL, l=2 + k % 5) for k in range(24)] + [{"op": "defer", "cb": 0}], [cb], 64)
v = json.loads(json.dumps(p)); v["cbs"][0][-1]["lc"][1][2] = 3
add("fx-gates-24-16", p, [("coefficient", v)])
# single allocations next to multiplications, zero assignments, a half-open gate at the end of each phase
cb = [{"op": "alloc", "a": 0}, MUL, {"op": "alloc", "a": 6}, {"op": "alloc", "a": 0}, {"op": "alloc", "a": 2},
      {"op": "con", "lc": [["R", 3, 1], ["O", 3, 1], ["L", 5, 2], ["1", 0, 1]], "fix": 2}]
ops = [{"op": "commit", "v": 3, "vb": 4}, {"op": "alloc", "a": 3}, MUL, {"op": "alloc", "a": 0}, {"op": "alloc", "a": 5},
       {"op": "mul", "l": [["L", 0, 1]], "r": [["R", 0, 1], ["1", 0, 1]]},
       {"op": "con", "lc": [["R", 1, 1], ["O", 1, 1], ["V", 0, -1]], "fix": 1}, {"op": "alloc", "a": 7}, {"op": "defer", "cb": 0}]
p = side(ops, [cb], 16)
v = json.loads(json.dumps(p)); v["ops"][6]["lc"][1] = ["R", 1, 1]          # the output wire confused with the right wire
v2 = json.loads(json.dumps(p)); v2["cbs"][0][-1]["lc"][0] = ["O", 3, 1]
add("fx-singles-zeros", p, [("o-as-r", v), ("r-as-o-cb", v2)])
# gate counts that are exact powers of two, made of single allocations with the last one half open
for n in (1, 2, 4):
    ops = [{"op": "alloc", "a": 2 + k} for k in range(2 * n - 1)] + [{"op": "con", "lc": [["L", n - 1, 1]], "fix": 1}]
    add("fx-halfopen-%d" % n, side(ops, (), n))
vlib.build()
out = os.path.join(HERE, "fixtures", "wire")
for c in vlib.REAL_CURVES + ["toy31723"]:
    fp = os.path.join(out, "%s.more2.ndjson" % c)
    if os.path.exists(fp):
        print("exists, not overwriting:", fp)
        continue
    pp = os.path.join(out, "progs.tmp")
    vlib.write_ndjson(pp, progs)
    vlib.harness("mkfixture", "--curve", c, "--programs", pp, "--out", fp)
    os.remove(pp)
    rows = vlib.read_ndjson(fp)
    print(c, len(rows), [r.get("vres", r.get("error")) for r in rows])
