#!/usr/bin/env python3
"""Additional fixtures recorded from the reference revision (circuits with several randomized callbacks). Writes
fixtures/wire/<curve>.more1.ndjson; refuses to overwrite."""
import json, os, sys
HERE = os.path.dirname(os.path.dirname(os.path.abspath(__file__)))
sys.path.insert(0, os.path.join(HERE, "lib")); sys.path.insert(0, HERE)
import vlib
MUL = {"op": "allocmul", "l": 2, "r": 3}
progs = []
for k, (a, b, c) in enumerate([(1, 1, 1), (2, 0, 1), (0, 2, 2), (3, 1, 0)]):
    cbs = [
        [{"op": "chal", "label": "c"}] + [MUL] * a + [{"op": "con", "lc": [["V", 0, {"k0": 1, "ch": 0, "k1": 2}], ["1", 0, 3]], "fix": 1}],
        [{"op": "chal", "label": "c2"}, {"op": "append", "label": "memo", "data": [k]}] + [MUL] * b + [{"op": "mul", "l": [["V", 1, {"k0": 0, "ch": 1, "k1": 1}]], "r": [["V", 0, 1]]}],
        [{"op": "alloc", "a": 5}, {"op": "alloc", "a": 6}] + [MUL] * c + [{"op": "con", "lc": [["V", 1, 2], ["1", 0, 1]], "fix": 2}],
    ]
    n = 1 + a + b + 1 + 1 + c
    cap = 1
    while cap < n:
        cap *= 2
    ops = [{"op": "commit", "v": 4 + k, "vb": 6}, {"op": "commit", "v": 9, "vb": 2 + k}, MUL, {"op": "defer", "cb": 0}, {"op": "defer", "cb": 1}, {"op": "defer", "cb": 2}]
    progs.append({"id": "fx-multicb-%d" % k, "p": {"label": "verif", "pre": [], "ops": ops, "cbs": cbs, "cap": cap}, "seed": 4242 + k})
    v = json.loads(json.dumps(progs[-1]["p"]))
    v["cbs"][1][1]["data"] = [99]
    progs.append({"id": "fx-multicb-%d-wrong-cb-append" % k, "p": progs[-1]["p"], "v": v, "seed": 4242 + k})
vlib.build()
out = os.path.join(HERE, "fixtures", "wire")
for c in vlib.REAL_CURVES + vlib.TOY_CURVES:
    fp = os.path.join(out, "%s.more1.ndjson" % c)
    if os.path.exists(fp):
        print("exists, not overwriting:", fp)
        continue
    pp = os.path.join(out, "progs.tmp")
    vlib.write_ndjson(pp, progs)
    vlib.harness("mkfixture", "--curve", c, "--programs", pp, "--out", fp)
    os.remove(pp)
    rows = vlib.read_ndjson(fp)
    print(c, len(rows), [r.get("vres", r.get("error")) for r in rows])
